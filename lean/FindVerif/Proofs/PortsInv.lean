import FindVerif.Proofs.CompileInv
/- In plain mode every printer is built over a port and THE mutex created with that port
   (one mutex per port: the mutex index is the port index + 1). -/
namespace FV

structure PortsInv (m : Manager) : Prop where
  defOk : ∀ p, m.defaultPort = some p → p.mutex = p.port + 1
  fileOk : ∀ f p, (f, p) ∈ m.files → p.mutex = p.port + 1
  printerOk : ∀ i prt mtx t, Binding.printerL i prt mtx t ∈ m.vars → mtx = prt + 1

theorem PortsInv.localInit : PortsInv Manager.localInit :=
  ⟨by simp [Manager.localInit], by simp [Manager.localInit], by simp [Manager.localInit]⟩

theorem PortsInv.distInit : PortsInv Manager.distInit :=
  ⟨by simp [Manager.distInit], by simp [Manager.distInit], by simp [Manager.distInit]⟩

theorem portsInv_getMatcher (m : Manager) (pat : Text) (ci : Bool) (h : PortsInv m) : PortsInv (m.getMatcher pat ci).2 := by
  simp only [Manager.getMatcher, Manager.registerMatch]
  cases assocGet m.matches_ (pat, ci) with
  | some id => exact h
  | none =>
    refine ⟨h.defOk, h.fileOk, ?_⟩
    intro i prt mtx t hb
    simp at hb
    exact h.printerOk i prt mtx t hb

theorem portsInv_registerPrinterL (m : Manager) (p : OpenPort) (t : Option Char) (h : PortsInv m) (hp : p.mutex = p.port + 1) :
    PortsInv (m.registerPrinterL p t).2 := by
  simp only [Manager.registerPrinterL]
  cases assocGet m.printersL (p, t) with
  | some id => exact h
  | none =>
    refine ⟨h.defOk, h.fileOk, ?_⟩
    intro i prt mtx t' hb
    simp at hb
    rcases hb with hb | ⟨_, rfl, rfl, _⟩
    · exact h.printerOk i prt mtx t' hb
    · exact hp

theorem portsInv_registerPrinterD (m : Manager) (tg : Target) (h : PortsInv m) : PortsInv (m.registerPrinterD tg).2 := by
  simp only [Manager.registerPrinterD]
  cases assocGet m.printersD tg with
  | some id => exact h
  | none =>
    refine ⟨h.defOk, h.fileOk, ?_⟩
    intro i prt mtx t' hb
    simp at hb
    exact h.printerOk i prt mtx t' hb

theorem portsInv_initDefaultPort (m : Manager) (h : PortsInv m) :
    PortsInv m.initDefaultPort.2 ∧ m.initDefaultPort.1.mutex = m.initDefaultPort.1.port + 1 := by
  simp only [Manager.initDefaultPort]
  cases hd : m.defaultPort with
  | some p => exact ⟨h, h.defOk p hd⟩
  | none =>
    refine ⟨⟨?_, h.fileOk, ?_⟩, rfl⟩
    · intro p hp; simp at hp; subst hp; rfl
    · intro i prt mtx t hb
      simp at hb
      exact h.printerOk i prt mtx t hb

theorem portsInv_initFilePort (m : Manager) (f : Text) (h : PortsInv m) :
    PortsInv (m.initFilePort f).2 ∧ (m.initFilePort f).1.mutex = (m.initFilePort f).1.port + 1 := by
  simp only [Manager.initFilePort]
  cases hg : assocGet m.files f with
  | some p => exact ⟨h, h.fileOk f p (assocGet_some hg)⟩
  | none =>
    refine ⟨⟨h.defOk, ?_, ?_⟩, rfl⟩
    · intro f' p hp
      simp at hp
      rcases hp with hp | ⟨_, rfl⟩
      · exact h.fileOk f' p hp
      · rfl
    · intro i prt mtx t hb
      simp at hb
      exact h.printerOk i prt mtx t hb

theorem portsInv_getPrinter (m : Manager) (t : Option Char) (h : PortsInv m) : PortsInv (m.getPrinter t).2 := by
  simp only [Manager.getPrinter]
  split
  · exact portsInv_registerPrinterD m _ h
  · obtain ⟨h1, hp⟩ := portsInv_initDefaultPort m h
    exact portsInv_registerPrinterL _ _ t h1 hp

theorem portsInv_getFilePrinter (m : Manager) (f : Text) (t : Option Char) (h : PortsInv m) :
    PortsInv (m.getFilePrinter f t).2 := by
  simp only [Manager.getFilePrinter]
  split
  · exact portsInv_registerPrinterD m _ h
  · obtain ⟨h1, hp⟩ := portsInv_initFilePort m f h
    exact portsInv_registerPrinterL _ _ t h1 hp

/-- Anything the three resource requests preserve is preserved by code generation. -/
theorem compileExpr_preserves (Pred : Manager → Prop)
    (hM : ∀ m pat ci, Pred m → Pred (Manager.getMatcher m pat ci).2)
    (hP : ∀ m t, Pred m → Pred (Manager.getPrinter m t).2)
    (hF : ∀ m f t, Pred m → Pred (Manager.getFilePrinter m f t).2)
    (clk : Nat → Nat) : ∀ (e : Expr) (st st' : CState) (txt : Text),
    Pred st.mgr → compileExpr clk e st = .ok (txt, st') → Pred st'.mgr := by
  intro e
  induction e with
  | test t =>
    intro st st' txt h hc
    rcases compileTest_mgr clk t st st' txt (by simpa [compileExpr] using hc) with he | ⟨s, ci, he⟩
    · rw [he]; exact h
    · rw [he]; exact hM _ _ _ h
  | action a =>
    intro st st' txt h hc
    rcases compileAction_mgr a st st' txt (by simpa [compileExpr] using hc) with he | ⟨t, he⟩ | ⟨f, t, he⟩
    · rw [he]; exact h
    · rw [he]; exact hP _ _ h
    · rw [he]; exact hF _ _ _ h
  | global g => intro st st' txt h hc; simp [compileExpr] at hc
  | positional p => intro st st' txt h hc; simp [compileExpr] at hc
  | prec e _ => intro st st' txt h hc; simp [compileExpr] at hc
  | not e ih =>
    intro st st' txt h hc
    simp only [compileExpr] at hc
    cases h1 : compileExpr clk e st with
    | ok r => obtain ⟨t1, s1⟩ := r; rw [h1] at hc; simp at hc; obtain ⟨_, rfl⟩ := hc; exact ih st s1 t1 h h1
    | err x => rw [h1] at hc; simp at hc
    | panic s => rw [h1] at hc; simp at hc
  | and a b iha ihb => intro st st' txt h hc; exact bin Pred clk a b iha ihb st st' txt _ h (by simpa [compileExpr] using hc)
  | list a b iha ihb => intro st st' txt h hc; exact bin Pred clk a b iha ihb st st' txt _ h (by simpa [compileExpr] using hc)
  | or a b iha ihb => intro st st' txt h hc; exact bin Pred clk a b iha ihb st st' txt _ h (by simpa [compileExpr] using hc)
where
  bin (Pred : Manager → Prop) (clk : Nat → Nat) (a b : Expr)
      (iha : ∀ (st st' : CState) (txt : Text), Pred st.mgr → compileExpr clk a st = .ok (txt, st') → Pred st'.mgr)
      (ihb : ∀ (st st' : CState) (txt : Text), Pred st.mgr → compileExpr clk b st = .ok (txt, st') → Pred st'.mgr)
      (st st' : CState) (txt hd : Text) (h : Pred st.mgr)
      (hc : compileExpr.bin hd (compileExpr clk a st) (compileExpr clk b) = .ok (txt, st')) : Pred st'.mgr := by
    simp only [compileExpr.bin] at hc
    cases h1 : compileExpr clk a st with
    | ok r =>
      obtain ⟨t1, s1⟩ := r
      rw [h1] at hc; simp only at hc
      cases h2 : compileExpr clk b s1 with
      | ok r2 =>
        obtain ⟨t2, s2⟩ := r2
        rw [h2] at hc; simp at hc; obtain ⟨_, rfl⟩ := hc
        exact ihb s1 s2 t2 (iha st s1 t1 h h1) h2
      | err x => rw [h2] at hc; simp at hc
      | panic s => rw [h2] at hc; simp at hc
    | err x => rw [h1] at hc; simp at hc
    | panic s => rw [h1] at hc; simp at hc

theorem portsInv_compileExpr (clk : Nat → Nat) (e : Expr) (st st' : CState) (txt : Text)
    (h : PortsInv st.mgr) (hc : compileExpr clk e st = .ok (txt, st')) : PortsInv st'.mgr :=
  compileExpr_preserves PortsInv portsInv_getMatcher portsInv_getPrinter portsInv_getFilePrinter clk e st st' txt h hc

/-- Framed mode: the bindings are the fixed port, mutex and frame procedure, plus printers that
    only call the frame procedure, plus matchers.  Nothing else can write. -/
def Binding.framedOk : Binding → Prop
  | .stdoutPort i => i = 0
  | .mutex i => i = 1
  | .frame => True
  | .printerD _ => True
  | .matcher _ _ _ => True
  | .filePort _ _ => False
  | .printerL _ _ _ _ => False

structure DistShape (m : Manager) : Prop where
  dist : m.distributed = true
  shape : ∀ b ∈ m.vars, b.framedOk

theorem DistShape.distInit : DistShape Manager.distInit :=
  ⟨rfl, by intro b hb; simp [Manager.distInit] at hb; rcases hb with rfl | rfl | rfl <;> simp [Binding.framedOk]⟩

theorem distShape_getMatcher (m : Manager) (pat : Text) (ci : Bool) (h : DistShape m) : DistShape (m.getMatcher pat ci).2 := by
  simp only [Manager.getMatcher, Manager.registerMatch]
  cases assocGet m.matches_ (pat, ci) with
  | some id => exact h
  | none =>
    refine ⟨h.dist, ?_⟩
    intro b hb
    simp at hb
    rcases hb with hb | rfl
    · exact h.shape b hb
    · simp [Binding.framedOk]

theorem distShape_registerPrinterD (m : Manager) (tg : Target) (h : DistShape m) : DistShape (m.registerPrinterD tg).2 := by
  simp only [Manager.registerPrinterD]
  cases assocGet m.printersD tg with
  | some id => exact h
  | none =>
    refine ⟨h.dist, ?_⟩
    intro b hb
    simp at hb
    rcases hb with hb | rfl
    · exact h.shape b hb
    · simp [Binding.framedOk]

theorem distShape_getPrinter (m : Manager) (t : Option Char) (h : DistShape m) : DistShape (m.getPrinter t).2 := by
  simp only [Manager.getPrinter, h.dist, if_true]
  exact distShape_registerPrinterD m _ h

theorem distShape_getFilePrinter (m : Manager) (f : Text) (t : Option Char) (h : DistShape m) :
    DistShape (m.getFilePrinter f t).2 := by
  simp only [Manager.getFilePrinter, h.dist, if_true]
  exact distShape_registerPrinterD m _ h

theorem distShape_compileExpr (clk : Nat → Nat) (e : Expr) (st st' : CState) (txt : Text)
    (h : DistShape st.mgr) (hc : compileExpr clk e st = .ok (txt, st')) : DistShape st'.mgr :=
  compileExpr_preserves DistShape distShape_getMatcher distShape_getPrinter distShape_getFilePrinter clk e st st' txt h hc

end FV
