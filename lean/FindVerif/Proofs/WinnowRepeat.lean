import FindVerif.Proofs.WinnowBasic
/- Facts about the looping combinators (`repeatFold`, `repeatTillLoop`, `separatedLoop`). -/
namespace FV
namespace W
variable {ι α β γ : Type}

/-- Bounded panic-freedom: on inputs of length ≤ `k`. -/
def NoPanicOn (k : Nat) (p : P ι α) : Prop := ∀ i, i.length ≤ k → ∀ s, p i ≠ .panic s

theorem NoPanic.on {p : P ι α} (h : NoPanic p) (k : Nat) : NoPanicOn k p := fun i _ s => h i s

theorem NoPanicOn.mono {p : P ι α} {k k' : Nat} (h : NoPanicOn k p) (hk : k' ≤ k) : NoPanicOn k' p :=
  fun i hi s => h i (Nat.le_trans hi hk) s

theorem noPanicOn_map {p : P ι α} {k} (f : α → β) (h : NoPanicOn k p) : NoPanicOn k (map f p) := by
  intro i hi s hm
  simp only [map] at hm
  split at hm <;> simp at hm
  rename_i s' hp
  exact h i hi s' hp

theorem noPanicOn_alt2 {p q : P ι α} {k} (hp : NoPanicOn k p) (hq : NoPanicOn k q) :
    NoPanicOn k (alt2 p q) := by
  intro i hi s h
  simp only [alt2] at h
  split at h
  · exact hq i hi s h
  · exact hp i hi s h

theorem noPanicOn_alt {ps : List (P ι α)} {k} (h : ∀ p ∈ ps, NoPanicOn k p) : NoPanicOn k (alt ps) := by
  induction ps with
  | nil => exact noPanic_fail.on k
  | cons p ps ih =>
    cases ps with
    | nil => simpa [alt] using h p (by simp)
    | cons q qs =>
      simp only [alt]
      exact noPanicOn_alt2 (h p (by simp)) (ih (fun x hx => h x (by simp [hx])))

theorem noPanicOn_cutErr {p : P ι α} {k} (h : NoPanicOn k p) : NoPanicOn k (cutErr p) := by
  intro i hi s hc
  simp only [cutErr] at hc
  split at hc
  · simp at hc
  · exact h i hi s hc

theorem noPanicOn_context {p : P ι α} {k} (c : Ctx) (h : NoPanicOn k p) : NoPanicOn k (context c p) := by
  intro i hi s hc
  simp only [context] at hc
  split at hc
  · simp at hc
  · exact h i hi s hc

theorem noPanicOn_pair {p : P ι α} {q : P ι β} {k} (hp : NoPanicOn k p) (hn : NonInc p)
    (hq : NoPanicOn k q) : NoPanicOn k (pair p q) := by
  intro i hi s h
  simp only [pair] at h
  split at h
  · rename_i a r1 h1
    split at h <;> simp at h
    rename_i s' h2
    exact hq _ (Nat.le_trans (hn i a r1 h1) hi) s' h2
  · simp at h
  · rename_i s' h1; exact hp i hi s' h1

/-- When the first component consumes, the second only needs the smaller bound. -/
theorem noPanicOn_pair_consume {p : P ι α} {q : P ι β} {k} (hp : NoPanicOn (k + 1) p) (hc : Consumes p)
    (hq : NoPanicOn k q) : NoPanicOn (k + 1) (pair p q) := by
  intro i hi s h
  simp only [pair] at h
  split at h
  · rename_i a r1 h1
    split at h <;> simp at h
    rename_i s' h2
    have := hc i a r1 h1
    exact hq _ (by omega) s' h2
  · simp at h
  · rename_i s' h1; exact hp i hi s' h1

theorem noPanicOn_mapOrPanic {p : P ι α} {R} {k} (site : Text) (f : α → Option β) (hs : Sound p R)
    (hn : NoPanicOn k p) (hf : ∀ pre a, R pre a → (f a).isSome) : NoPanicOn k (mapOrPanic site f p) := by
  intro i hi s hm
  simp only [mapOrPanic] at hm
  split at hm
  · rename_i a r' hp
    obtain ⟨pre, _, hr⟩ := hs i a _ hp
    have := hf pre a hr
    split at hm
    · simp at hm
    · rename_i hnone; simp [hnone] at this
  · simp at hm
  · rename_i s' hp; exact hn i hi s' hp

/-! ### `repeatFold` -/

/-- Soundness of the fold loop with an accumulated-prefix invariant `L`. -/
theorem repeatFold_sound {p : P ι α} {B : List ι → α → Prop} {L : List ι → β → Prop} {g : β → α → β}
    (pf : Profile) (hp : Sound p B)
    (hstep : ∀ pre0 acc pre a, L pre0 acc → B pre a → L (pre0 ++ pre) (g acc a)) :
    ∀ (fuel : Nat) (acc : β) (i : List ι) (res : β) (r : List ι) (pre0 : List ι),
      repeatFold pf p g fuel acc i = .ok res r → L pre0 acc →
      ∃ pre, i = pre ++ r ∧ L (pre0 ++ pre) res := by
  intro fuel
  induction fuel with
  | zero => intro acc i res r pre0 h; simp [repeatFold] at h
  | succ n ih =>
    intro acc i res r pre0 h hL
    simp only [repeatFold] at h
    split at h
    · simp at h; obtain ⟨rfl, rfl⟩ := h; exact ⟨[], by simp, by simpa using hL⟩
    · simp at h
    · simp at h
    · rename_i a r1 h1
      split at h
      · cases pf <;> simp [assertFail] at h
      · obtain ⟨pre1, rfl, hb⟩ := hp i a r1 h1
        obtain ⟨pre2, rfl, hl⟩ := ih (g acc a) r1 res r (pre0 ++ pre1) h (hstep _ _ _ _ hL hb)
        exact ⟨pre1 ++ pre2, by simp, by simpa using hl⟩

/-- The loop never panics when the body neither panics nor succeeds without consuming, and the
    fuel covers the input. -/
theorem repeatFold_noPanic {p : P ι α} {g : β → α → β} {k : Nat} (pf : Profile)
    (hn : NoPanicOn k p) (hc : Consumes p) :
    ∀ (fuel : Nat) (acc : β) (i : List ι), i.length ≤ k → i.length < fuel →
      ∀ s, repeatFold pf p g fuel acc i ≠ .panic s := by
  intro fuel
  induction fuel with
  | zero => intro acc i _ hf; omega
  | succ n ih =>
    intro acc i hk hf s h
    simp only [repeatFold] at h
    split at h
    · simp at h
    · simp at h
    · rename_i s' h1; exact hn i hk s' h1
    · rename_i a r1 h1
      have hlt := hc i a r1 h1
      split at h
      · omega
      · exact ih (g acc a) r1 (by omega) (by omega) s h

/-- Fuel and profile do not matter once the fuel covers the input and the body consumes. -/
theorem repeatFold_stable {p p' : P ι α} {g : β → α → β} (pf pf' : Profile)
    (hpp : ∀ j, p j = p' j) (hc : Consumes p) :
    ∀ (n m : Nat) (acc : β) (i : List ι), i.length < n → i.length < m →
      repeatFold pf p g n acc i = repeatFold pf' p' g m acc i := by
  intro n
  induction n with
  | zero => intro m acc i h; omega
  | succ n ih =>
    intro m acc i hn hm
    cases m with
    | zero => omega
    | succ m =>
      simp only [repeatFold]
      rw [← hpp i]
      cases h1 : p i with
      | ok a r1 =>
        have hlt := hc i a r1 h1
        have hne : r1.length ≠ i.length := by omega
        simp only [hne, if_false]
        exact ih m (g acc a) r1 (by omega) (by omega)
      | err k c r => cases k <;> rfl
      | panic s => rfl

/-- One unrolling of the loop when the body succeeds (and has consumed). -/
theorem repeatFold_step {p : P ι α} {g : β → α → β} (pf : Profile) (n : Nat) (acc : β) (i : List ι)
    (a : α) (r : List ι) (h : p i = .ok a r) (hlt : r.length < i.length) :
    repeatFold pf p g (n + 1) acc i = repeatFold pf p g n (g acc a) r := by
  simp only [repeatFold, h]
  have : r.length ≠ i.length := by omega
  simp [this]

/-- The loop stops when the body backtracks. -/
theorem repeatFold_stop {p : P ι α} {g : β → α → β} (pf : Profile) (n : Nat) (acc : β) (i : List ι)
    (c : List Ctx) (r : List ι) (h : p i = .err false c r) :
    repeatFold pf p g (n + 1) acc i = .ok acc i := by
  simp only [repeatFold, h]

end W
end FV

namespace FV
namespace W
variable {ι α β γ : Type}

/-! ### `repeatTillLoop` -/

theorem repeatTillLoop_noPanic {f : P ι α} {g : P ι β} {k : Nat} (pf : Profile)
    (hf : NoPanicOn k f) (hg : NoPanicOn k g) (hc : Consumes f) :
    ∀ (fuel : Nat) (acc : List α) (i : List ι), i.length ≤ k → i.length < fuel →
      ∀ s, repeatTillLoop pf f g fuel acc i ≠ .panic s := by
  intro fuel
  induction fuel with
  | zero => intro acc i _ h; omega
  | succ n ih =>
    intro acc i hk hfu s h
    simp only [repeatTillLoop] at h
    cases hg1 : g i with
    | ok b r => rw [hg1] at h; simp at h
    | panic s' => exact hg i hk s' hg1
    | err kk c r =>
      rw [hg1] at h
      cases kk with
      | true => simp at h
      | false =>
        simp only at h
        cases hf1 : f i with
        | err k2 c2 r2 => rw [hf1] at h; simp at h
        | panic s' => exact hf i hk s' hf1
        | ok a r1 =>
          rw [hf1] at h; simp only at h
          have := hc i a r1 hf1
          split at h
          · omega
          · exact ih _ _ (by omega) (by omega) s h

/-- The collected list extends the accumulator. -/
theorem repeatTillLoop_acc {f : P ι α} {g : P ι β} (pf : Profile) :
    ∀ (fuel : Nat) (acc : List α) (i : List ι) (xs : List α) (b : β) (r : List ι),
      repeatTillLoop pf f g fuel acc i = .ok (xs, b) r → ∃ ys, xs = acc.reverse ++ ys := by
  intro fuel
  induction fuel with
  | zero => intro acc i xs b r h; simp [repeatTillLoop] at h
  | succ n ih =>
    intro acc i xs b r h
    simp only [repeatTillLoop] at h
    cases hg1 : g i with
    | ok b' r' => rw [hg1] at h; simp at h; exact ⟨[], by simp [h.1.1]⟩
    | panic s' => rw [hg1] at h; simp at h
    | err kk c r' =>
      rw [hg1] at h
      cases kk with
      | true => simp at h
      | false =>
        simp only at h
        cases hf1 : f i with
        | err k2 c2 r2 => rw [hf1] at h; simp at h
        | panic s' => rw [hf1] at h; simp at h
        | ok a r1 =>
          rw [hf1] at h; simp only at h
          split at h
          · cases pf <;> simp [assertFail] at h
          · obtain ⟨ys, rfl⟩ := ih _ _ _ _ _ h
            exact ⟨a :: ys, by simp⟩

theorem repeatTillLoop_stable {f f' : P ι α} {g : P ι β} (pf pf' : Profile)
    (hff : ∀ j, f j = f' j) (hc : Consumes f) :
    ∀ (n m : Nat) (acc : List α) (i : List ι), i.length < n → i.length < m →
      repeatTillLoop pf f g n acc i = repeatTillLoop pf' f' g m acc i := by
  intro n
  induction n with
  | zero => intro m acc i h; omega
  | succ n ih =>
    intro m acc i hn hm
    cases m with
    | zero => omega
    | succ m =>
      simp only [repeatTillLoop]
      rw [← hff i]
      cases hg1 : g i with
      | ok b r => rfl
      | panic s => rfl
      | err kk c r =>
        cases kk with
        | true => rfl
        | false =>
          simp only
          cases hf1 : f i with
          | err k2 c2 r2 => rfl
          | panic s => rfl
          | ok a r1 =>
            have hlt := hc i a r1 hf1
            have hne : r1.length ≠ i.length := by omega
            simp only [hne, if_false]
            exact ih m _ r1 (by omega) (by omega)

end W
end FV
