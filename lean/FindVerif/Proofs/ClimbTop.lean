import FindVerif.Proofs.ClimbComplete
/- Top level of the climber: whole-input consumption, panic-freedom, profile independence. -/
namespace FV
open W Spec

variable {ι α β γ : Type}

/-- Postcondition on the rest of a successful parse. -/
def Post (p : P ι α) (Q : List ι → Prop) : Prop := ∀ i a r, p i = .ok a r → Q r

theorem post_true (p : P ι α) : Post p (fun _ => True) := fun _ _ _ _ => trivial

theorem post_map {p : P ι α} {Q} (f : α → β) (h : Post p Q) : Post (W.map f p) Q := by
  intro i b r hm
  simp only [W.map] at hm
  cases hp : p i with
  | ok a r' => rw [hp] at hm; simp at hm; obtain ⟨_, rfl⟩ := hm; exact h i a _ hp
  | err k c r' => rw [hp] at hm; simp at hm
  | panic s => rw [hp] at hm; simp at hm

theorem post_pair {p : P ι α} {q : P ι β} {Q} (h : Post q Q) : Post (pair p q) Q := by
  intro i ab r hm
  simp only [pair] at hm
  cases hp : p i with
  | ok a r1 =>
    rw [hp] at hm
    simp only at hm
    cases hq : q r1 with
    | ok b r2 => rw [hq] at hm; simp at hm; obtain ⟨_, rfl⟩ := hm; exact h _ b _ hq
    | err k c r' => rw [hq] at hm; simp at hm
    | panic s => rw [hq] at hm; simp at hm
  | err k c r' => rw [hp] at hm; simp at hm
  | panic s => rw [hp] at hm; simp at hm

theorem post_preceded {p : P ι α} {q : P ι β} {Q} (h : Post q Q) : Post (preceded p q) Q :=
  post_map _ (post_pair h)

theorem post_cutErr {p : P ι α} {Q} (h : Post p Q) : Post (cutErr p) Q := by
  intro i a r hc
  simp only [cutErr] at hc
  split at hc
  · simp at hc
  · exact h i a r hc

theorem post_context {p : P ι α} {Q} (c : Ctx) (h : Post p Q) : Post (context c p) Q := by
  intro i a r hc
  simp only [context] at hc
  split at hc
  · simp at hc
  · exact h i a r hc

theorem repeatFold_post {p : P ι α} {g : β → α → β} {Q : List ι → Prop} (pf : Profile) (hp : Post p Q) :
    ∀ (fuel : Nat) (acc : β) (i : List ι) (res : β) (r : List ι), Q i →
      repeatFold pf p g fuel acc i = .ok res r → Q r ∧ ∃ c r', p r = .err false c r' := by
  intro fuel
  induction fuel with
  | zero => intro acc i res r _ h; simp [repeatFold] at h
  | succ n ih =>
    intro acc i res r hq h
    simp only [repeatFold] at h
    split at h
    · rename_i c r' h1
      simp at h; obtain ⟨_, rfl⟩ := h
      exact ⟨hq, c, r', h1⟩
    · simp at h
    · simp at h
    · rename_i a r1 h1
      split at h
      · cases pf <;> simp [assertFail] at h
      · exact ih _ _ _ _ (hp i a r1 h1) h

theorem post_foldLevel {sub body : P Token Expr} {mk} {Q : List Token → Prop} (pf : Profile)
    (hs : Post sub Q) (hb : Post body Q) :
    Post (foldLevel pf sub body mk) (fun r => Q r ∧ ∃ c r', body r = .err false c r') := by
  intro i e r h
  simp only [foldLevel] at h
  split at h
  · rename_i init r1 h1
    exact repeatFold_post pf hb _ _ _ _ _ (hs i init r1 h1) h
  · rename_i hne
    cases hx : sub i with
    | ok a r' => exact absurd hx (hne a r')
    | err k c r' => rw [hx] at h; simp at h
    | panic s => rw [hx] at h; simp at h

def AndBt (pf : Profile) (n : Nat) (r : List Token) : Prop := ∃ c r', andBody (atom pf n) r = .err false c r'
def OrBt (pf : Profile) (n : Nat) (r : List Token) : Prop := ∃ c r', orBody pf (atom pf n) r = .err false c r'
def ListBt (pf : Profile) (n : Nat) (r : List Token) : Prop := ∃ c r', listBody pf (atom pf n) r = .err false c r'

theorem post_andLevel (pf : Profile) (n : Nat) : Post (andLevel pf (atom pf n)) (AndBt pf n) := by
  have := post_foldLevel (mk := Expr.and) pf (post_true (atom pf n)) (post_true (andBody (atom pf n)))
  intro i a r h
  exact (this i a r h).2

theorem post_orLevel (pf : Profile) (n : Nat) :
    Post (orLevel pf (atom pf n)) (fun r => AndBt pf n r ∧ OrBt pf n r) := by
  have hb : Post (orBody pf (atom pf n)) (AndBt pf n) :=
    post_preceded (post_context _ (post_cutErr (post_andLevel pf n)))
  exact post_foldLevel (mk := Expr.or) pf (post_andLevel pf n) hb

theorem post_listLevel (pf : Profile) (n : Nat) :
    Post (listLevel pf (atom pf n)) (fun r => (AndBt pf n r ∧ OrBt pf n r) ∧ ListBt pf n r) := by
  have hb : Post (listBody pf (atom pf n)) (fun r => AndBt pf n r ∧ OrBt pf n r) :=
    post_preceded (post_context _ (post_cutErr (post_orLevel pf n)))
  exact post_foldLevel (mk := Expr.list) pf (post_orLevel pf n) hb

/-- Where all three loops have stopped, the input is at its end or at a `)`. -/
theorem stop_analysis (pf : Profile) (n : Nat) (r : List Token)
    (ha : AndBt pf (n+1) r) (ho : OrBt pf (n+1) r) (hl : ListBt pf (n+1) r) : ListStop r := by
  cases r with
  | nil => exact Or.inl rfl
  | cons t r' =>
    obtain ⟨c1, r1, ha⟩ := ha
    obtain ⟨c2, r2, ho⟩ := ho
    obtain ⟨c3, r3, hl⟩ := hl
    cases t with
    | rparen => exact Or.inr ⟨r', rfl⟩
    | lparen =>
      exfalso
      rw [atom_succ] at ha
      cases hx : listLevel pf (atom pf n) r' with
      | ok e r'' =>
        cases r'' with
        | nil => simp [andBody, alt, alt2, preceded, pair, W.map, oneOf, tokIs, mapOrPanic, isPrimTok, notP, parensP, delimited, terminated, context, cutErr, hx] at ha
        | cons u r''' =>
          by_cases hu : u = Token.rparen
          · subst hu
            simp [andBody, alt, alt2, preceded, pair, W.map, oneOf, tokIs, mapOrPanic, isPrimTok, notP, parensP, delimited, terminated, context, cutErr, hx] at ha
          · simp [andBody, alt, alt2, preceded, pair, W.map, oneOf, tokIs, mapOrPanic, isPrimTok, notP, parensP, delimited, terminated, context, cutErr, hx, hu] at ha
      | err k c r'' => simp [andBody, alt, alt2, preceded, pair, W.map, oneOf, tokIs, mapOrPanic, isPrimTok, notP, parensP, delimited, terminated, context, cutErr, hx] at ha
      | panic s => simp [andBody, alt, alt2, preceded, pair, W.map, oneOf, tokIs, mapOrPanic, isPrimTok, notP, parensP, delimited, terminated, context, cutErr, hx] at ha
    | not =>
      exfalso
      rw [atom_succ] at ha
      cases hx : atom pf n r' <;>
      simp [andBody, alt, alt2, preceded, pair, W.map, oneOf, tokIs, mapOrPanic, isPrimTok, notP, context, cutErr, hx] at ha
    | and =>
      exfalso
      cases hx : atom pf (n+1) r' <;>
      simp [andBody, alt, alt2, preceded, pair, W.map, oneOf, tokIs, context, cutErr, hx] at ha
    | or =>
      exfalso
      cases hx : andLevel pf (atom pf (n+1)) r' <;>
      simp [orBody, preceded, pair, W.map, oneOf, tokIs, context, cutErr, hx] at ho
    | comma =>
      exfalso
      cases hx : orLevel pf (atom pf (n+1)) r' <;>
      simp [listBody, preceded, pair, W.map, oneOf, tokIs, context, cutErr, hx] at hl
    | test v =>
      exfalso
      rw [atom_succ] at ha
      simp [andBody, alt, alt2, preceded, pair, W.map, oneOf, tokIs, mapOrPanic, isPrimTok, primExpr] at ha
    | action v =>
      exfalso
      rw [atom_succ] at ha
      simp [andBody, alt, alt2, preceded, pair, W.map, oneOf, tokIs, mapOrPanic, isPrimTok, primExpr] at ha
    | global v =>
      exfalso
      rw [atom_succ] at ha
      simp [andBody, alt, alt2, preceded, pair, W.map, oneOf, tokIs, mapOrPanic, isPrimTok, primExpr] at ha
    | positional v =>
      exfalso
      rw [atom_succ] at ha
      simp [andBody, alt, alt2, preceded, pair, W.map, oneOf, tokIs, mapOrPanic, isPrimTok, primExpr] at ha

/-- After a successful `list`, the rest is empty or starts with `)`. -/
theorem list_rest (pf : Profile) (n : Nat) {i e r} (h : list pf n i = .ok e r) : ListStop r := by
  cases n with
  | zero =>
    -- `atom 0` panics, so nothing succeeds
    exfalso
    simp [list, listLevel, orLevel, andLevel, foldLevel, atom] at h
  | succ m =>
    obtain ⟨⟨ha, ho⟩, hl⟩ := post_listLevel pf (m+1) i e r h
    exact stop_analysis pf m r ha ho hl

/-- `list` backtracks on an input starting with `)`. -/
theorem list_rparen (pf : Profile) (n : Nat) (r : List Token) :
    ∃ k c r', k = false ∧ list pf (n+1) (Token.rparen :: r) = .err k c r' := by
  obtain ⟨c, r', h⟩ := atom_stop pf n Token.rparen r rfl
  exact ⟨false, c, r', rfl, by simp [list, listLevel, orLevel, andLevel, foldLevel, h]⟩

end FV

namespace FV
open W Spec

theorem list_complete_top (pf : Profile) {ts e} (h : GList ts e) (n : Nat) (hn : ts.length < n) :
    list pf n ts = .ok e [] := by
  have := list_complete pf h n [] (by simpa using hn) (Or.inl rfl)
  obtain ⟨c, r', hstop⟩ := listBody_stop pf (atom pf n) (rest := []) (Or.inl rfl)
  rw [repeatFold_stop pf _ _ _ c r' hstop] at this
  simpa [list] using this

/-- Every sentence of the grammar is parsed to its tree, consuming all tokens. -/
theorem climb_complete (pf : Profile) {ts e} (h : GList ts e) : climb pf ts = .ok e [] := by
  have hl := list_complete_top pf h (ts.length + 1) (by omega)
  simp [climb, climbWith, mapOrPanic, context, repeatTill1, hl, repeatTillLoop, eof]

/-- A successful parse has consumed every token and its result is a grammar derivation of the
    whole input (in particular: never a prefix). -/
theorem climb_sound (pf : Profile) {ts e r} (h : climb pf ts = .ok e r) : r = [] ∧ GList ts e := by
  simp only [climb, climbWith, mapOrPanic, context, repeatTill1] at h
  cases hl : list pf (ts.length + 1) ts with
  | panic s => simp [hl] at h
  | err k c r' => simp [hl] at h
  | ok a r1 =>
    simp only [hl] at h
    cases r1 with
    | nil =>
      simp [repeatTillLoop, eof] at h
      obtain ⟨rfl, rfl⟩ := h
      obtain ⟨pre, hpre, hg⟩ := sound_list pf _ ts a [] hl
      simp at hpre; subst hpre
      exact ⟨rfl, hg⟩
    | cons t r' =>
      exfalso
      rcases list_rest pf _ hl with h0 | ⟨r'', h0⟩
      · simp at h0
      · simp at h0
        obtain ⟨rfl, rfl⟩ := h0
        obtain ⟨k, c, r3, rfl, hb⟩ := list_rparen pf ts.length r'
        simp [repeatTillLoop, eof, hb] at h

end FV
