import FindVerif.Model.Ast
/- Canonical S-expression text shared with the Rust harness (see harness/src/sx.rs). -/
namespace FV

inductive Sx where
  | atom (s : String)
  | list (items : List Sx)
  deriving Repr, Inhabited, BEq

namespace Sx

def hexNibble (n : Nat) : Char := hexDigit n

def hexOfBytes (bs : ByteArray) : String := Id.run do
  let mut out := "x"
  for b in bs.toList do
    out := out.push (hexNibble (b.toNat / 16))
    out := out.push (hexNibble (b.toNat % 16))
  return out

def hexOfText (t : Text) : String := hexOfBytes (String.ofList t).toUTF8

def nibbleVal (c : Char) : Option Nat :=
  if '0' ≤ c && c ≤ '9' then some (c.toNat - '0'.toNat)
  else if 'a' ≤ c && c ≤ 'f' then some (c.toNat - 'a'.toNat + 10)
  else none

def bytesOfHex : List Char → Option (List UInt8)
  | [] => some []
  | [_] => none
  | a :: b :: r =>
    match nibbleVal a, nibbleVal b, bytesOfHex r with
    | some x, some y, some t => some (UInt8.ofNat (x * 16 + y) :: t)
    | _, _, _ => none

def textOfHex (s : String) : Option Text :=
  match s.toList with
  | 'x' :: r =>
    match bytesOfHex r with
    | some bs => (String.fromUTF8? (ByteArray.mk bs.toArray)).map String.toList
    | none => none
  | _ => none

partial def print : Sx → String
  | .atom a => a
  | .list items => "(" ++ " ".intercalate (items.map print) ++ ")"

def app (name : String) (args : List Sx) : Sx := .list (.atom name :: args)
def vec (items : List Sx) : Sx := .list (.atom "#" :: items)
def str (t : Text) : Sx := .atom (hexOfText t)
def num (n : Nat) : Sx := .atom (toString n)
def chr (c : Char) : Sx := .atom ("c" ++ toString c.toNat)

def tokenize (s : String) : List String := Id.run do
  let mut toks : Array String := #[]
  let mut cur := ""
  for c in s.toList do
    if c = '(' || c = ')' then
      if !cur.isEmpty then toks := toks.push cur; cur := ""
      toks := toks.push (String.singleton c)
    else if c = ' ' then
      if !cur.isEmpty then toks := toks.push cur; cur := ""
    else cur := cur.push c
  if !cur.isEmpty then toks := toks.push cur
  return toks.toList

partial def parseAt : List String → Option (Sx × List String)
  | [] => none
  | "(" :: r => parseItems r []
  | ")" :: _ => none
  | a :: r => some (.atom a, r)
where
  parseItems : List String → List Sx → Option (Sx × List String)
    | [], _ => none
    | ")" :: r, acc => some (.list acc.reverse, r)
    | ts, acc => match parseAt ts with
      | some (x, r) => parseItems r (x :: acc)
      | none => none

def parse (s : String) : Option Sx :=
  match parseAt (tokenize s) with
  | some (x, []) => some x
  | _ => none

end Sx
end FV
