import FindVerif.Model.Parse
import FindVerif.Model.Compile
import FindVerif.Driver.Conv
/- Observation strings in the harness's format, computed from the model. -/
namespace FV
open Sx

def ParseError.variant : ParseError → String
  | .invalidToken _ => "InvalidToken"
  | .invalidTestArgument .. => "InvalidTestArgument"
  | .invalidTestUnknown .. => "InvalidTestUnknown"
  | .invalidActionArgument .. => "InvalidActionArgument"
  | .invalidActionUnknown .. => "InvalidActionUnknown"
  | .invalidGlobalArgument .. => "InvalidGlobalArgument"
  | .invalidGlobalUnknown .. => "InvalidGlobalUnknown"

def ParseError.fields : ParseError → List Text
  | .invalidToken w => [w]
  | .invalidTestArgument t w d => [t, w, d]
  | .invalidTestUnknown t w => [t, w]
  | .invalidActionArgument a w d => [a, w, d]
  | .invalidActionUnknown a w => [a, w]
  | .invalidGlobalArgument g w d => [g, w, d]
  | .invalidGlobalUnknown g w => [g, w]

/-- `Display` of `ParserError::SyntaxError(..)` (thiserror templates of `error.rs`). -/
def ParseError.display : ParseError → Text
  | .invalidToken w => cl!"Syntax error: Unexpected token: `" ++ w ++ cl!"`"
  | .invalidTestArgument t w d =>
    cl!"Syntax error: Failed to parse argument `" ++ w ++ cl!"` of test `" ++ t ++ cl!"`: " ++ d
  | .invalidTestUnknown t w =>
    cl!"Syntax error: Failed to parse argument `" ++ w ++ cl!"` of test `" ++ t ++ cl!"`"
  | .invalidActionArgument a w d =>
    cl!"Syntax error: Failed to parse argument `" ++ w ++ cl!"` of action `" ++ a ++ cl!"`: " ++ d
  | .invalidActionUnknown a w =>
    cl!"Syntax error: Failed to parse argument `" ++ w ++ cl!"` of action `" ++ a ++ cl!"`"
  | .invalidGlobalArgument g w d =>
    cl!"Syntax error: Failed to parse argument `" ++ w ++ cl!"` of global option `" ++ g ++ cl!"`: " ++ d
  | .invalidGlobalUnknown g w =>
    cl!"Syntax error: Failed to parse argument `" ++ w ++ cl!"` of global option `" ++ g ++ cl!"`"

def fieldHex (fs : List Text) (i : Nat) : String :=
  match fs[i]? with
  | some t => hexOfText t
  | none => "-"

def ParseOut.obs : ParseOut → String
  | .ok o e => "OK " ++ optionsStr o ++ " " ++ (exprSx e).print
  | .error e =>
    "ERR " ++ e.variant ++ " " ++ fieldHex e.fields 0 ++ " " ++ fieldHex e.fields 1 ++ " "
      ++ fieldHex e.fields 2 ++ " " ++ hexOfText e.display
  | .panic _ => "PANIC parse"

end FV

namespace FV
open Sx

def CompileError.variant : CompileError → String
  | .unsupportedTest _ => "UnsupportedTest" | .unsupportedAction _ => "UnsupportedAction"
  | .unsupportedOption _ => "UnsupportedOption" | .unsupportedFormat _ => "UnsupportedFormat"

def CompileError.payload : CompileError → Text
  | .unsupportedTest s | .unsupportedAction s | .unsupportedOption s | .unsupportedFormat s => s

/-- thiserror templates of `scheme/error.rs`. -/
def CompileError.display : CompileError → Text
  | .unsupportedTest s => cl!"Although this expression is valid, LiPE does not support this test: " ++ s
  | .unsupportedAction s => cl!"Although this expression is valid, LiPE does not support this action: " ++ s
  | .unsupportedOption s => cl!"Although this expression is valid, LiPE does not support this action: " ++ s
  | .unsupportedFormat s => cl!"Although this format string is valid, LiPE does not support this formatting: " ++ s

def insertSorted (x : Nat × Target) : List (Nat × Target) → List (Nat × Target)
  | [] => [x]
  | y :: ys => if x.1 ≤ y.1 then x :: y :: ys else y :: insertSorted x ys

def ioMapStr : Option (List (Nat × Target)) → String
  | none => "none"
  | some l =>
    let sorted := l.foldr insertSorted []
    ((vec (sorted.map fun kv => .list [num kv.1, targetSx kv.2])).print).replace " " ","

/-- Observation of compile + renders, in the harness's format (clock fields copied). -/
def compileObs (t0 t1 : String) (clk : Nat → Nat) (e : Expr) (o : RunOptions) (paths : List Text) : String :=
  match compile clk e o with
  | .panic _ => "PANIC compile"
  | .err x => "CERR " ++ x.variant ++ " " ++ hexOfText x.payload ++ " - - " ++ hexOfText x.display
  | .ok c =>
    let m := ioMapStr c.ioMap
    let renders := paths.map fun p => " " ++ hexOfText (c.scheme p) ++ " " ++ m
    "COK " ++ t0 ++ " " ++ t1 ++ " " ++ m ++ String.join renders

end FV
