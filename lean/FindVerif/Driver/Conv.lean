import FindVerif.Driver.Sx
/- AST <-> canonical S-expression (mirror of harness/src/conv.rs). -/
namespace FV
open Sx

def cmpSx {α} (f : α → Sx) : Comparison α → Sx
  | .gt v => app "GT" [f v] | .lt v => app "LT" [f v] | .eq v => app "EQ" [f v]

def timeSx : TimeSpec → Sx
  | .second n => app "Second" [num n] | .minute n => app "Minute" [num n]
  | .hour n => app "Hour" [num n] | .day n => app "Day" [num n]

def sizeSx : Size → Sx
  | .byte n => app "Byte" [num n] | .word n => app "Word" [num n] | .block n => app "Block" [num n]
  | .kilo n => app "KiloByte" [num n] | .mega n => app "MegaByte" [num n]
  | .giga n => app "GigaByte" [num n] | .tera n => app "TeraByte" [num n]

def fileTypeSx : FileType → Sx
  | .block => .atom "Block" | .character => .atom "Character" | .directory => .atom "Directory"
  | .pipe => .atom "Pipe" | .file => .atom "File" | .link => .atom "Link" | .socket => .atom "Socket"

def specialSx : FormatSpecial → Sx
  | .alarm => .atom "Alarm" | .backspace => .atom "Backspace" | .clear => .atom "Clear"
  | .form => .atom "Form" | .newline => .atom "Newline" | .carriageReturn => .atom "CarriageReturn"
  | .tabHorizontal => .atom "TabHorizontal" | .tabVertical => .atom "TabVertical"
  | .null => .atom "Null" | .backslash => .atom "Backslash" | .ascii n => app "Ascii" [num n]

def fieldNames : List (String × FormatField) :=
  [ ("Percent", .percent), ("Access", .access), ("DiskSizeBlocks", .diskSizeBlocks), ("Change", .change),
    ("Depth", .depth), ("DeviceNumber", .deviceNumber), ("Basename", .basename), ("FsType", .fsType),
    ("Group", .group), ("GroupId", .groupId), ("Parents", .parents), ("StartingPoint", .startingPoint),
    ("InodeDecimal", .inodeDecimal), ("DiskSizeKilos", .diskSizeKilos), ("SymbolicTarget", .symbolicTarget),
    ("PermissionsOctal", .permissionsOctal), ("PermissionsSymbolic", .permissionsSymbolic),
    ("Hardlinks", .hardlinks), ("Name", .name), ("NameWithoutStartingPoint", .nameWithoutStartingPoint),
    ("DiskSizeBytes", .diskSizeBytes), ("Sparseness", .sparseness), ("Modify", .modify), ("User", .user),
    ("UserId", .userId), ("Type", .type), ("TypeSymlink", .typeSymlink), ("SecurityContext", .securityContext),
    ("FileId", .fileId), ("ProjectId", .projectId), ("MirrorCount", .mirrorCount),
    ("StripeCount", .stripeCount), ("StripeSize", .stripeSize) ]

def fieldSx : FormatField → Sx
  | .accessFormatted c => app "AccessFormatted" [chr c]
  | .changeFormatted c => app "ChangeFormatted" [chr c]
  | .modifyFormatted c => app "ModifyFormatted" [chr c]
  | .xattr s => app "XAttr" [str s]
  | f => match fieldNames.find? (fun kv => kv.2 = f) with
    | some kv => .atom kv.1
    | none => .atom "?"

def elementSx : FormatElement → Sx
  | .literal s => app "Lit" [str s] | .field f => app "Fld" [fieldSx f] | .special s => app "Spc" [specialSx s]

def formatSx (l : List FormatElement) : Sx := vec (l.map elementSx)

def permSx : PermCheck → Sx
  | .atLeast m => app "AtLeast" [num m] | .any m => app "Any" [num m] | .equal m => app "Equal" [num m]

def testSx : Test → Sx
  | .accessTime c => app "AccessTime" [cmpSx timeSx c]
  | .changeTime c => app "ChangeTime" [cmpSx timeSx c]
  | .modifyTime c => app "ModifyTime" [cmpSx timeSx c]
  | .empty => .atom "Empty" | .executable => .atom "Executable" | .false_ => .atom "False"
  | .groupId c => app "GroupId" [cmpSx num c] | .inodeNumber c => app "InodeNumber" [cmpSx num c]
  | .insensitiveName s => app "InsensitiveName" [str s] | .insensitivePath s => app "InsensitivePath" [str s]
  | .links c => app "Links" [cmpSx num c] | .mirrorCount c => app "MirrorCount" [cmpSx num c]
  | .name s => app "Name" [str s] | .path s => app "Path" [str s] | .perm p => app "Perm" [permSx p]
  | .pool s => app "Pool" [str s] | .readable => .atom "Readable" | .size c => app "Size" [cmpSx sizeSx c]
  | .stripeCount c => app "StripeCount" [cmpSx num c] | .true_ => .atom "True"
  | .type l => app "Type" [vec (l.map fileTypeSx)] | .userId c => app "UserId" [cmpSx num c]
  | .writable => .atom "Writable" | .xattr s => app "Xattr" [str s]
  | .xattrMatch f v => app "XattrMatch" [str f, str v]
  | .accessNewer s => app "AccessNewer" [str s] | .changeNewer s => app "ChangeNewer" [str s]
  | .fsType s => app "FsType" [str s] | .group s => app "Group" [str s]
  | .insensitiveLinkName s => app "InsensitiveLinkName" [str s]
  | .insensitiveRegex s => app "InsensitiveRegex" [str s] | .linkName s => app "LinkName" [str s]
  | .modifyNewer s => app "ModifyNewer" [str s] | .noGroup => .atom "NoGroup" | .noUser => .atom "NoUser"
  | .regex s => app "Regex" [str s] | .samefile s => app "Samefile" [str s] | .user s => app "User" [str s]

def actionSx : Action → Sx
  | .fileList s => app "FileList" [str s] | .filePrint s => app "FilePrint" [str s]
  | .filePrintNull s => app "FilePrintNull" [str s]
  | .filePrintFormatted s f => app "FilePrintFormatted" [str s, formatSx f]
  | .list => .atom "List" | .print => .atom "Print" | .printNull => .atom "PrintNull"
  | .printFormatted f => app "PrintFormatted" [formatSx f] | .printFid => .atom "PrintFid"
  | .prune => .atom "Prune" | .quit => .atom "Quit" | .defaultPrint => .atom "DefaultPrint"

def globalSx : GlobalOption → Sx
  | .depth => .atom "Depth" | .maxDepth n => app "MaxDepth" [num n]
  | .minDepth n => app "MinDepth" [num n] | .threads n => app "Threads" [num n]

def exprSx : Expr → Sx
  | .test t => app "T" [testSx t] | .action a => app "A" [actionSx a] | .global g => app "G" [globalSx g]
  | .positional _ => app "Pos" [.atom "XDev"] | .prec e => app "Prec" [exprSx e]
  | .not e => app "Not" [exprSx e] | .and a b => app "And" [exprSx a, exprSx b]
  | .or a b => app "Or" [exprSx a, exprSx b] | .list a b => app "List" [exprSx a, exprSx b]

def optionsStr (o : RunOptions) : String :=
  (if o.depth then "1" else "0") ++ " " ++ (match o.threads with | some n => toString n | none => "-")

def targetSx : Target → Sx
  | .stdout t => app "Stdout" [match t with | some c => chr c | none => .atom "-"]
  | .file n t => app "File" [str n, match t with | some c => chr c | none => .atom "-"]

-- ------------------------------------------------------------------ decoding

def headOf : Sx → Option (String × List Sx)
  | .atom a => some (a, [])
  | .list (.atom a :: r) => some (a, r)
  | _ => none

def dStr : Sx → Option Text
  | .atom a => textOfHex a
  | _ => none

def dNum : Sx → Option Nat
  | .atom a => a.toNat?
  | _ => none

def dChr : Sx → Option Char
  | .atom a => match a.toList with
    | 'c' :: r => (String.ofList r).toNat?.map Char.ofNat
    | _ => none
  | _ => none

def dVec {α} (f : Sx → Option α) (s : Sx) : Option (List α) :=
  match headOf s with
  | some ("#", args) => args.mapM f
  | _ => none

def dCmp {α} (f : Sx → Option α) (s : Sx) : Option (Comparison α) :=
  match headOf s with
  | some ("GT", [a]) => (f a).map .gt
  | some ("LT", [a]) => (f a).map .lt
  | some ("EQ", [a]) => (f a).map .eq
  | _ => none

def dTime (s : Sx) : Option TimeSpec :=
  match headOf s with
  | some ("Second", [a]) => (dNum a).map .second | some ("Minute", [a]) => (dNum a).map .minute
  | some ("Hour", [a]) => (dNum a).map .hour | some ("Day", [a]) => (dNum a).map .day
  | _ => none

def dSize (s : Sx) : Option Size :=
  match headOf s with
  | some ("Byte", [a]) => (dNum a).map .byte | some ("Word", [a]) => (dNum a).map .word
  | some ("Block", [a]) => (dNum a).map .block | some ("KiloByte", [a]) => (dNum a).map .kilo
  | some ("MegaByte", [a]) => (dNum a).map .mega | some ("GigaByte", [a]) => (dNum a).map .giga
  | some ("TeraByte", [a]) => (dNum a).map .tera
  | _ => none

def dFileType (s : Sx) : Option FileType :=
  match headOf s with
  | some ("Block", []) => some .block | some ("Character", []) => some .character
  | some ("Directory", []) => some .directory | some ("Pipe", []) => some .pipe
  | some ("File", []) => some .file | some ("Link", []) => some .link
  | some ("Socket", []) => some .socket
  | _ => none

def dSpecial (s : Sx) : Option FormatSpecial :=
  match headOf s with
  | some ("Alarm", []) => some .alarm | some ("Backspace", []) => some .backspace
  | some ("Clear", []) => some .clear | some ("Form", []) => some .form
  | some ("Newline", []) => some .newline | some ("CarriageReturn", []) => some .carriageReturn
  | some ("TabHorizontal", []) => some .tabHorizontal | some ("TabVertical", []) => some .tabVertical
  | some ("Null", []) => some .null | some ("Backslash", []) => some .backslash
  | some ("Ascii", [a]) => (dNum a).map .ascii
  | _ => none

def dField (s : Sx) : Option FormatField :=
  match headOf s with
  | some ("AccessFormatted", [a]) => (dChr a).map .accessFormatted
  | some ("ChangeFormatted", [a]) => (dChr a).map .changeFormatted
  | some ("ModifyFormatted", [a]) => (dChr a).map .modifyFormatted
  | some ("XAttr", [a]) => (dStr a).map .xattr
  | some (n, []) => (fieldNames.find? (fun kv => kv.1 = n)).map Prod.snd
  | _ => none

def dElement (s : Sx) : Option FormatElement :=
  match headOf s with
  | some ("Lit", [a]) => (dStr a).map .literal
  | some ("Fld", [a]) => (dField a).map .field
  | some ("Spc", [a]) => (dSpecial a).map .special
  | _ => none

def dFormat (s : Sx) : Option (List FormatElement) := dVec dElement s

def dPerm (s : Sx) : Option PermCheck :=
  match headOf s with
  | some ("AtLeast", [a]) => (dNum a).map .atLeast | some ("Any", [a]) => (dNum a).map .any
  | some ("Equal", [a]) => (dNum a).map .equal
  | _ => none

def dTest (s : Sx) : Option Test :=
  match headOf s with
  | some ("AccessTime", [a]) => (dCmp dTime a).map .accessTime
  | some ("ChangeTime", [a]) => (dCmp dTime a).map .changeTime
  | some ("ModifyTime", [a]) => (dCmp dTime a).map .modifyTime
  | some ("Empty", []) => some .empty | some ("Executable", []) => some .executable
  | some ("False", []) => some .false_
  | some ("GroupId", [a]) => (dCmp dNum a).map .groupId
  | some ("InodeNumber", [a]) => (dCmp dNum a).map .inodeNumber
  | some ("InsensitiveName", [a]) => (dStr a).map .insensitiveName
  | some ("InsensitivePath", [a]) => (dStr a).map .insensitivePath
  | some ("Links", [a]) => (dCmp dNum a).map .links
  | some ("MirrorCount", [a]) => (dCmp dNum a).map .mirrorCount
  | some ("Name", [a]) => (dStr a).map .name | some ("Path", [a]) => (dStr a).map .path
  | some ("Perm", [a]) => (dPerm a).map .perm | some ("Pool", [a]) => (dStr a).map .pool
  | some ("Readable", []) => some .readable
  | some ("Size", [a]) => (dCmp dSize a).map .size
  | some ("StripeCount", [a]) => (dCmp dNum a).map .stripeCount
  | some ("True", []) => some .true_
  | some ("Type", [a]) => (dVec dFileType a).map .type
  | some ("UserId", [a]) => (dCmp dNum a).map .userId
  | some ("Writable", []) => some .writable
  | some ("Xattr", [a]) => (dStr a).map .xattr
  | some ("XattrMatch", [a, b]) => match dStr a, dStr b with
    | some x, some y => some (.xattrMatch x y) | _, _ => none
  | some ("AccessNewer", [a]) => (dStr a).map .accessNewer
  | some ("ChangeNewer", [a]) => (dStr a).map .changeNewer
  | some ("FsType", [a]) => (dStr a).map .fsType | some ("Group", [a]) => (dStr a).map .group
  | some ("InsensitiveLinkName", [a]) => (dStr a).map .insensitiveLinkName
  | some ("InsensitiveRegex", [a]) => (dStr a).map .insensitiveRegex
  | some ("LinkName", [a]) => (dStr a).map .linkName
  | some ("ModifyNewer", [a]) => (dStr a).map .modifyNewer
  | some ("NoGroup", []) => some .noGroup | some ("NoUser", []) => some .noUser
  | some ("Regex", [a]) => (dStr a).map .regex | some ("Samefile", [a]) => (dStr a).map .samefile
  | some ("User", [a]) => (dStr a).map .user
  | _ => none

def dAction (s : Sx) : Option Action :=
  match headOf s with
  | some ("FileList", [a]) => (dStr a).map .fileList
  | some ("FilePrint", [a]) => (dStr a).map .filePrint
  | some ("FilePrintNull", [a]) => (dStr a).map .filePrintNull
  | some ("FilePrintFormatted", [a, b]) => match dStr a, dFormat b with
    | some x, some y => some (.filePrintFormatted x y) | _, _ => none
  | some ("List", []) => some .list | some ("Print", []) => some .print
  | some ("PrintNull", []) => some .printNull
  | some ("PrintFormatted", [a]) => (dFormat a).map .printFormatted
  | some ("PrintFid", []) => some .printFid | some ("Prune", []) => some .prune
  | some ("Quit", []) => some .quit | some ("DefaultPrint", []) => some .defaultPrint
  | _ => none

def dGlobal (s : Sx) : Option GlobalOption :=
  match headOf s with
  | some ("Depth", []) => some .depth | some ("MaxDepth", [a]) => (dNum a).map .maxDepth
  | some ("MinDepth", [a]) => (dNum a).map .minDepth | some ("Threads", [a]) => (dNum a).map .threads
  | _ => none

partial def dExpr (s : Sx) : Option Expr :=
  match headOf s with
  | some ("T", [a]) => (dTest a).map .test
  | some ("A", [a]) => (dAction a).map .action
  | some ("G", [a]) => (dGlobal a).map .global
  | some ("Pos", [_]) => some (.positional .xdev)
  | some ("Prec", [a]) => (dExpr a).map .prec
  | some ("Not", [a]) => (dExpr a).map .not
  | some ("And", [a, b]) => match dExpr a, dExpr b with
    | some x, some y => some (.and x y) | _, _ => none
  | some ("Or", [a, b]) => match dExpr a, dExpr b with
    | some x, some y => some (.or x y) | _, _ => none
  | some ("List", [a, b]) => match dExpr a, dExpr b with
    | some x, some y => some (.list x y) | _, _ => none
  | _ => none

end FV
