import FindVerif.Spec.Find
import FindVerif.Driver.Lines
import FindVerif.Spec.Grammar
import FindVerif.Spec.Scheme.Read
import FindVerif.Spec.Vocab
import FindVerif.Spec.Options
import FindVerif.Spec.Supported
import FindVerif.Spec.Actions
import FindVerif.Spec.Scheme.Analysis
/-
  Property predicates evaluated on the IMPLEMENTATION's observation (independent of whether the
  model agrees with it): `none` = holds, `some reason` = the implementation fails the property
  on this request.
-/
namespace FV
open Sx

/-- Decoded implementation observation of a parse. -/
inductive ImplParse where
  | ok (o : RunOptions) (e : Expr)
  | err (variant : String) (f0 f1 f2 : Option Text) (text : Text)
  | panic (msg : String)
  | other (s : String)

def optHex (s : String) : Option Text := if s = "-" then none else textOfHex s

def decodeParse (obs : String) : ImplParse :=
  match obs.splitOn " " with
  | "OK" :: d :: th :: treeToks =>
    match (Sx.parse (" ".intercalate treeToks)).bind dExpr with
    | some e => .ok { depth := d = "1", threads := if th = "-" then none else th.toNat? } e
    | none => .other obs
  | ["ERR", v, f0, f1, f2, text] => .err v (optHex f0) (optHex f1) (optHex f2) ((textOfHex text).getD [])
  | "PANIC" :: rest => .panic (" ".intercalate rest)
  | _ => .other obs

/-! ### C01 -/

/-- The word table of the C01 stream (spec side): words are separated by single spaces. -/
def c01Tokens : List String → Option (List Token)
  | [] => some []
  | "(" :: r => (c01Tokens r).map (Token.lparen :: ·)
  | ")" :: r => (c01Tokens r).map (Token.rparen :: ·)
  | "!" :: r => (c01Tokens r).map (Token.not :: ·)
  | "," :: r => (c01Tokens r).map (Token.comma :: ·)
  | "-a" :: r => (c01Tokens r).map (Token.and :: ·)
  | "-and" :: r => (c01Tokens r).map (Token.and :: ·)
  | "-o" :: r => (c01Tokens r).map (Token.or :: ·)
  | "-or" :: r => (c01Tokens r).map (Token.or :: ·)
  | "-true" :: r => (c01Tokens r).map (Token.test .true_ :: ·)
  | "-false" :: r => (c01Tokens r).map (Token.test .false_ :: ·)
  | "-name" :: "x" :: r => (c01Tokens r).map (Token.test (.name ['x']) :: ·)
  | "-depth" :: r => (c01Tokens r).map (Token.test .true_ :: ·)   -- inside the expression an option stands for -true (C13)
  | _ => none

/-- C01 on the implementation: accepted exactly when the words form a sentence, with the
    grammar's tree.  The oracle is `climb`, proved equivalent to `Spec.GList` (Theorems/C01). -/
def checkC01 (input : Text) (obs : String) : Option String :=
  let words := ((String.ofList input).splitOn " ").filter (· ≠ "")
  match c01Tokens words with
  | none => none     -- not a C01 request
  | some [] =>
    match decodeParse obs with
    | .ok o e => if e = .test .true_ && o = {} then none else some "empty-input-not-true"
    | _ => some "empty-input-rejected"
  | some ts =>
    match climb .release ts, decodeParse obs with
    | .ok e _, .ok o e' =>
      let wantOpts : RunOptions := { depth := words.any (· = "-depth"), threads := none }
      if e = e' && o = wantOpts then none else some s!"wrong-tree expected={(exprSx e).print}"
    | .ok e _, _ => some s!"sentence-rejected expected={(exprSx e).print}"
    | _, .ok _ e' => some s!"non-sentence-accepted got={(exprSx e').print}"
    | _, .err _ _ _ _ _ => none
    | _, .panic m => some ("panic " ++ m)
    | _, .other s => some ("unreadable-observation " ++ s)

/-! ### C19 -/

def sizeUnitOf : String → Option Nat
  | "Byte" => some 1 | "Word" => some 2 | "Block" => some 512 | "KiloByte" => some (2^10)
  | "MegaByte" => some (2^20) | "GigaByte" => some (2^30) | "TeraByte" => some (2^40) | _ => none

def timeUnitOf : String → Option Nat
  | "Second" => some 1 | "Minute" => some 60 | "Hour" => some 3600 | "Day" => some 86400 | _ => none

/-- C19 on the implementation.  `hasAction`/`complexFrames` are the oracle, proved equivalent to
    `Spec.ContainsAction`/`Spec.NeedsFraming` (Theorems/C19). -/
def checkC19 (req : List String) (obs : String) : Option String :=
  match req with
  | "T" :: _ :: _ :: _ :: treeToks =>
    match (Sx.parse (" ".intercalate treeToks)).bind dExpr with
    | none => none
    | some e =>
      let want := "Q " ++ (if e.hasAction then "1" else "0") ++ " " ++ (if e.complexFrames then "1" else "0")
      let got := (splitBar obs).1
      if got = want then none else some s!"helpers-disagree-with-tree want=[{want}] got=[{got}]"
  | ["U", "S", v, n] =>
    match sizeUnitOf v, obs.splitOn " " with
    | some u, ["US", m, b] =>
      if m ≠ toString u then some s!"wrong-size-unit {v} {m}"
      else if n.toNat! * u < 2^64 && b ≠ toString (n.toNat! * u) then some s!"wrong-byte-size {v} {n} {b}"
      else none
    | _, _ => some "unreadable-unit-observation"
  | ["U", "T", v, _] =>
    match timeUnitOf v, obs.splitOn " " with
    | some u, ["UT", m] => if m = toString u then none else some s!"wrong-time-unit {v} {m}"
    | _, _ => some "unreadable-unit-observation"
  | _ => none

def stripAnnot (req : List String) : List String := req.filter (fun p => !p.startsWith "#")

/-- `#key=value` annotations of a request. -/
def annot (req : List String) (key : String) : Option String :=
  req.findSome? fun p =>
    if p.startsWith ("#" ++ key ++ "=") then some ((p.drop (key.length + 2)).toString) else none

def annotText (req : List String) (key : String) : Option Text := (annot req key).bind textOfHex

def annotTexts (req : List String) (key : String) : Option (List Text) :=
  match annot req key with
  | none => none
  | some "" => some []
  | some v => (v.splitOn ",").mapM textOfHex

/-! ### C05 / C07 / C08 / C14: one primary in a known context -/

/-- Tokens of the request: the primary (from the spec vocabulary) placed in the annotated context. -/
def ctxTokens (ctx : String) (t : Token) : Option (List Token) :=
  let tt := Token.test .true_
  let ff := Token.test .false_
  match ctx with
  | "alone" => some [t]
  | "after" => some [tt, t]
  | "before" => some [t, ff]
  | "paren" => some [.lparen, t, .rparen]
  | "not" => some [.not, t]
  | "mid" => some [tt, t, .or, ff]
  | "list" => some [ff, .comma, t, tt]
  | "gparen" => some [.lparen, t, .rparen]
  | "aftertype" => some [.test (.type [.file]), t]
  | "beforetype" => some [t, .test (.type [.directory])]
  | "afteruid" => some [.test (.userId (.eq 0)), t]
  | "long" => some (List.replicate 60 tt ++ [t, .or, ff])
  | "tab" => some [tt, t]
  | "deep" => some (List.replicate 20 .lparen ++ [t] ++ List.replicate 20 .rparen)
  | _ => none

/-- Expected observation class for `keyword args` in a context, from the spec alone. -/
inductive Want where
  | result (o : RunOptions) (e : Expr)
  | reject
  | nothing

def wantPrimary (req : List String) : Want :=
  -- a word that is not in the vocabulary makes the whole input an error
  if (annot req "unknownword").isSome then .reject else
  match annotText req "kw", annotTexts req "args", annot req "ctx" with
  | some kw, some args, some ctx =>
    match Spec.expectedToken (String.ofList kw) args with
    | .unknown => .nothing
    | .reject => .reject
    | .token t =>
      match ctxTokens ctx t with
      | none => .nothing
      | some ts =>
        match climb .release (Spec.expressionOf ts) with
        | .ok e _ => .result (Spec.optionsOf ts) e
        | _ => .nothing
  | _, _, _ => .nothing

def checkPrimary (req : List String) (obs : String) : Option String :=
  match wantPrimary req, decodeParse (splitBar obs).1 with
  | .nothing, .panic m => some ("panic " ++ m)
  | .nothing, _ => none
  | .reject, .err _ _ _ _ _ => none
  | .reject, .ok _ e => some s!"argument-outside-language-accepted got={(exprSx e).print}"
  | .reject, .panic m => some ("panic " ++ m)
  | .reject, .other s => some ("unreadable-observation " ++ s)
  | .result o e, .ok o' e' =>
    if e = e' && o = o' then none
    else some s!"wrong-node expected={optionsStr o} {(exprSx e).print} got={optionsStr o'} {(exprSx e').print}"
  | .result _ e, .err v _ _ _ _ => some s!"member-of-language-rejected ({v}) expected={(exprSx e).print}"
  | .result _ _, .panic m => some ("panic " ++ m)
  | .result _ _, .other s => some ("unreadable-observation " ++ s)

/-! ### C18: error messages -/

def isInfix (a b : Text) : Bool :=
  (List.range (b.length + 1)).any fun k => isPrefix a (b.drop k)

/-- Segments of a message between backquotes. -/
def backquoted : Text → List Text
  | [] => []
  | c :: cs =>
    if c = '`' then
      let seg := cs.takeWhile (· ≠ '`')
      match cs.dropWhile (· ≠ '`') with
      | _ :: rest => seg :: backquoted' rest rest.length
      | [] => []
    else backquoted cs
where
  backquoted' (t : Text) : Nat → List Text
    | 0 => []
    | n + 1 =>
      match t with
      | [] => []
      | c :: cs =>
        if c = '`' then
          let seg := cs.takeWhile (· ≠ '`')
          match cs.dropWhile (· ≠ '`') with
          | _ :: rest => seg :: backquoted' rest n
          | [] => []
        else backquoted' cs n

def checkC18 (req : List String) (obs : String) : Option String :=
  match req with
  | "P" :: hx :: _ =>
    match textOfHex hx, annot req "kind", annotText req "word" with
    | some input, some kind, some word =>
      match decodeParse obs with
      | .err _ _ _ _ text =>
        let quoted := backquoted text
        if text.isEmpty then some "empty-message"
        else if !(quoted.all fun q => isInfix q input) then some "message-quotes-text-not-in-input"
        else if !(quoted.any (· = word)) then some s!"message-does-not-quote-the-word"
        else if kind = "unknown" then none
        else match annotText req "kw" with
          | some kw => if quoted.any (· = kw) then none else some "message-does-not-name-the-keyword"
          | none => none
      | .ok _ e => some s!"invalid-input-accepted got={(exprSx e).print}"
      | .panic m => some ("panic " ++ m)
      | .other s => some ("unreadable-observation " ++ s)
    | _, _, _ => none
  | _ => none

/-! ### C03: outcome class -/

def checkC03 (obs : String) : Option String :=
  if (obs.splitOn " ").any (· = "PANIC") then some ("panic: " ++ obs.take 200)
  else if obs.startsWith "ABORT" || obs.startsWith "TIMEOUT" then some obs
  else
    -- rendering an error as text always succeeds and is never empty
    match decodeParse (splitBar obs).1 with
    | .err _ _ _ _ text => if text.isEmpty then some "empty-error-text" else none
    | _ => none

/-! ### groups: requests that must give identical observations (C06, C13, C15) -/

structure DState where
  groups : List (String × String) := []

def groupCheck (prop : String) (st : DState) (req : List String) (obs : String) : DState × Option String :=
  match annot req "grp" with
  | none => (st, none)
  | some g =>
    let key := match prop with
      | "C13" => " ".intercalate (((splitBar obs).1.splitOn " ").drop 3)
      | _ => (splitBar obs).1
    match st.groups.find? (fun kv => kv.1 = g) with
    | none => ({ st with groups := (g, key) :: st.groups.take 64 }, none)
    | some (_, first) =>
      if first = key then (st, none)
      else (st, some s!"equivalent-inputs-differ first=[{first.take 300}] this=[{key.take 300}]")

/-! ### compile-side observations -/

inductive ImplCompile where
  | ok (t0 t1 : Nat) (map0 : String) (renders : List (Text × String))
  | err (variant name : String)
  | panic (stage : String)
  | none

def decodeRenders : List String → List (Text × String)
  | p :: m :: rest => ((textOfHex p).getD [], m) :: decodeRenders rest
  | _ => []

def decodeCompile (obs : String) : ImplCompile :=
  match ((splitBar obs).2).splitOn " " with
  | "COK" :: t0 :: t1 :: m0 :: rest => .ok t0.toNat! t1.toNat! m0 (decodeRenders rest)
  | "CERR" :: v :: n :: _ => .err v n
  | "PANIC" :: st :: _ => .panic st
  | _ => .none

/-- The tree a compile request is about: from a `T` request, or from the parse part of the
    implementation's observation of a `C` request. -/
def treeOf (req : List String) (obs : String) : Option Expr :=
  match stripAnnot req with
  | "T" :: _ :: _ :: _ :: treeToks => (Sx.parse (" ".intercalate treeToks)).bind dExpr
  | "C" :: _ =>
    match decodeParse (splitBar obs).1 with
    | .ok _ e => some e
    | _ => none
  | _ => none

def readProgram (text : Text) : Option Scheme.Program := (Scheme.readAll text).bind Scheme.programOf

/-- C13: the options carried by the result are the annotated ones, and the scan call uses them. -/
def checkC13 (req : List String) (obs : String) : Option String :=
  match annot req "opts", decodeParse (splitBar obs).1 with
  | some want, .ok o _ =>
    if want = "any" then none
    else if optionsStr o ≠ want.replace "_" " " then some s!"wrong-options want={want} got={optionsStr o}"
    else
      -- compile requests: the fifth argument of the scan call is the requested count, or the runtime's default
      match decodeCompile obs with
      | .ok _ _ _ ((text, _) :: _) =>
        match (readProgram text).map (·.threads) with
        | some thr =>
          let wantThr : Scheme.SExp := match o.threads with
            | some n => .num n
            | none => .list [.sym (cl!"lipe-getopt-thread-count")]
          if thr == wantThr then none else some s!"scan-call-thread-argument-differs-from-the-options got={optionsStr o}"
        | none => some "program-does-not-read-back"
      | _ => none
  | some _, .panic m => some ("panic " ++ m)
  | some want, .err v _ _ _ _ => if want = "any" then none else some s!"rejected ({v})"
  | _, _ => none


/-! ### C12 -/

def checkC12 (req : List String) (obs : String) : Option String :=
  match treeOf req obs with
  | none => none
  | some e =>
    -- trees with explicit-precedence / option nodes are outside the parser's range (C12 is stated for the others)
    if !(Spec.plainB e) then none else
    match Spec.firstUnsupported e, decodeCompile obs with
    | some (k, n), .err v name =>
      if v = k && name = n then none else some s!"error-names-wrong-construct want={k}({n}) got={v}({name})"
    | some (k, n), .ok .. => some s!"unsupported-construct-compiled {k}({n})"
    | none, .err v name => some s!"supported-expression-refused {v}({name})"
    | none, .ok _ _ _ renders =>
      if renders.any (fun r => Spec.isInfixT (cl!"UNIMPLEMENTED") r.1) then some "placeholder-emitted" else none
    | _, .panic st => some ("panic " ++ st)
    | _, .none => none

/-! ### C04 / C20 / C11 / C09 / C10 / C16: on the read-back program -/

def firstRender (obs : String) : Option Text :=
  match decodeCompile obs with
  | .ok _ _ _ ((p, _) :: _) => some p
  | _ => none

/-- File names of a destination table observation. -/
def mapFileNames (m0 : String) : List Text :=
  match Sx.parse (m0.replace "," " ") with
  | some (.list (.atom "#" :: entries)) => entries.filterMap fun en => match en with
    | .list [_, .list [.atom "File", n, _]] => dStr n
    | _ => none
  | _ => []

def checkC04 (st : DState) (req : List String) (obs : String) : DState × Option String :=
  match decodeCompile obs with
  | .ok _ _ m0 ((text, _) :: _) =>
    match Scheme.readAll text with
    | none => (st, some "program-does-not-read-back")
    | some forms =>
      match Scheme.programOf forms with
      | none => (st, some s!"not-the-two-expected-forms ({forms.length} forms)")
      | some _ =>
        let whole := Scheme.SExp.list forms
        let leaves := Scheme.strLeaves whole
        let wanted := (annotTexts req "strs").getD []
        -- in framed mode a file name lives in the destination table, not in the program
        let places := leaves ++ mapFileNames m0
        if !(wanted.all fun w => places.any (· = w)) then (st, some "user-string-not-a-string-literal-with-that-value")
        else if !(Scheme.formatCallsOk whole) then (st, some "format-template-directives-do-not-match-arguments")
        else
          -- same structure as the benign member of the group
          match annot req "grp" with
          | none => (st, none)
          | some g =>
            let key := toString (repr (Scheme.skeleton whole)) ++ " #" ++ toString leaves.length
            match st.groups.find? (fun kv => kv.1 = g) with
            | none => ({ st with groups := (g, key) :: st.groups.take 64 }, none)
            | some (_, first) =>
              if first = key then (st, none) else (st, some "user-string-changes-program-structure")
  | .panic stg => (st, some ("panic " ++ stg))
  | _ => (st, none)

/-- C20: renders differ only in the device string, which decodes to the path given. -/
def checkC20 (req : List String) (obs : String) : Option String :=
  match stripAnnot req, decodeCompile obs with
  | "C" :: _ :: hpaths, .ok _ _ m0 renders =>
    let paths := hpaths.filterMap textOfHex
    if renders.length ≠ paths.length then some "render-count" else
    if !(renders.all fun r => r.2 = m0) then some "destination-table-changed-by-rendering" else
    let progs := renders.map fun r => readProgram r.1
    let zipped := paths.zip (renders.zip progs)
    let bad := zipped.findSome? fun (path, (r, prog)) =>
      match prog with
      | none => some "render-does-not-read-back"
      | some p =>
        if p.device != Scheme.SExp.str path then some "device-string-does-not-decode-to-the-path"
        else
          -- everything but the device string equals the first render
          match progs.head? with
          | some (some p0) =>
            if toString (repr { p with device := .str [] }) = toString (repr { p0 with device := .str [] }) then none
            else some "renders-differ-outside-the-device-string"
          | _ => some "first-render-does-not-read-back"
    match bad with
    | some b => some b
    | none =>
      -- same path twice gives identical text
      let dup := zipped.findSome? fun (path, (r, _)) =>
        zipped.findSome? fun (path', (r', _)) => if path = path' && r.1 ≠ r'.1 then some "same-path-different-text" else none
      dup
  | _, .panic stg => some ("panic " ++ stg)
  | _, _ => none

def dTarget (s : Sx) : Option Target :=
  match headOf s with
  | some ("Stdout", [t]) => some (.stdout (dChr t))
  | some ("File", [n, t]) => (dStr n).map fun name => .file name (dChr t)
  | _ => none

/-- The destination table from the observation (`none` inside = plain mode). -/
def decodeIoMap (m0 : String) : Option (Option (List (Nat × Target))) :=
  if m0 = "none" then some none else
  match Sx.parse (m0.replace "," " ") with
  | some (.list (.atom "#" :: entries)) =>
    (entries.mapM fun (en : Sx) => match en with
      | Sx.list [Sx.atom k, t] => (dTarget t).map fun tg => (k.toNat!, tg)
      | _ => none).map some
  | _ => none

/-- A resource request made by a leaf of the tree, in traversal order. -/
inductive ResReq where
  | matcher (pat : Text) (ci : Bool)
  | printer (t : Target)
  deriving DecidableEq

def requestsOf : Expr → List ResReq
  | .test (.name s) => [.matcher s false]
  | .test (.path s) => [.matcher s false]
  | .test (.insensitiveName s) => [.matcher s true]
  | .test (.insensitivePath s) => [.matcher s true]
  | .action a => match Spec.target a with
    | some t => [.printer t]
    | none => []
  | .prec e | .not e => requestsOf e
  | .and a b | .or a b | .list a b => requestsOf a ++ requestsOf b
  | _ => []

/-- Does the binding `name` of the read-back program denote the resource `r`? -/
def denotes (p : Scheme.Program) (io : Option (List (Nat × Target))) (name : Text) (r : ResReq) : Bool :=
  let sym (s : Text) := Scheme.SExp.sym s
  match p.bindings.find? (fun b => b.1 = name), r with
  | some (_, .list [.sym lam, .list [.sym v], .list [.sym f, .str pat', .sym v']]), .matcher pat ci =>
    let want := (if Spec.hasGlob pat then cl!"fnmatch" else cl!"streq") ++ (if ci then cl!"-ci?" else cl!"?")
    lam = cl!"lambda" && v = v' && f = want && pat' = pat
  | some (_, .list [.sym lam, .list [.sym v], .list [.sym fr, .sym v', .chr tag]]), .printer t =>
    lam = cl!"lambda" && v = v' && fr = cl!"%lf3:frame:2" &&
      (match io with
       | some table => (table.find? (fun kv => kv.1 = tag)).map (·.2) == some t
       | none => false)
  | some (_, .list [.sym mp, .sym port, .sym _, term]), .printer t =>
    let portInit := (p.bindings.find? (fun b => b.1 = port)).map (·.2)
    let (wantPort, wantTerm) : Scheme.SExp × Option Char := match t with
      | .stdout tm => (.list [sym (cl!"current-output-port")], tm)
      | .file n tm => (.list [sym (cl!"open-file"), .str n, .str (cl!"w")], tm)
    let termOk := match wantTerm, term with
      | some c, .chr k => c.toNat % 256 = k
      | none, .bool false => true
      | _, _ => false
    mp = cl!"make-printer" && io.isNone && portInit == some wantPort && termOk
  | _, _ => false

/-- References of the policy body line up with the requests of the tree, and each denotes the
    resource requested. -/
def reachProblem (e : Expr) (p : Scheme.Program) (io : Option (List (Nat × Target))) (onlyPrinters : Bool) : Option String :=
  let target := if !e.hasAction then Expr.and e (.action .defaultPrint) else e
  let reqs := (requestsOf target).filter fun r => match r with | .printer _ => true | .matcher _ _ => !onlyPrinters
  let refs := (Scheme.symbols p.body).filter fun s => (!onlyPrinters && isPrefix (cl!"%lf3:match:") s) || isPrefix (cl!"%lf3:print:") s
  if reqs.length ≠ refs.length then some s!"references-do-not-line-up requests={reqs.length} references={refs.length}" else
  match (reqs.zip refs).find? (fun (r, n) => !denotes p io n r) with
  | some (_, n) => some ("reference-denotes-another-resource " ++ String.ofList n)
  | none => none

/-- C11: generated names bound once and in scope; every reference in the policy body denotes
    the resource requested by the corresponding leaf; equal requests share one name and different
    requests never share. -/
def checkC11 (req : List String) (obs : String) : Option String :=
  match decodeCompile obs with
  | .ok _ _ m0 ((text, _) :: _) =>
    match readProgram text with
    | none => some "program-does-not-read-back"
    | some p =>
      match Scheme.scopeProblem p with
      | some e => some e
      | none =>
        match treeOf req obs, decodeIoMap m0 with
        | some e, some io =>
          let target := if !e.hasAction then Expr.and e (.action .defaultPrint) else e
          let reqs := requestsOf target
          let refs := (Scheme.symbols p.body).filter fun s => isPrefix (cl!"%lf3:match:") s || isPrefix (cl!"%lf3:print:") s
          if reqs.length ≠ refs.length then some s!"references-do-not-line-up requests={reqs.length} references={refs.length}" else
          let pairs := reqs.zip refs
          match pairs.find? (fun (r, n) => !denotes p io n r) with
          | some (_, n) => some ("reference-denotes-another-resource " ++ String.ofList n)
          | none =>
            let rec share : List (ResReq × Text) → Option String
              | [] => none
              | (r, n) :: rest =>
                match rest.find? (fun (r', n') => decide (r = r') != decide (n = n')) with
                | some (_, n') => some ("sharing-wrong " ++ String.ofList n ++ " " ++ String.ofList n')
                | none => share rest
            share pairs
        | _, _ => none
  | .panic stg => some ("panic " ++ stg)
  | _ => none

/-- C09 (structure): the body is `(and E (print-relative-path))` exactly when the tree has no
    action; otherwise nothing is added. -/
def checkC09 (req : List String) (obs : String) : Option String :=
  match treeOf req obs, decodeCompile obs with
  | some e, .ok _ _ _ ((text, _) :: _) =>
    match readProgram text with
    | none => some "program-does-not-read-back"
    | some p =>
      let implicit := Scheme.SExp.list [.sym (cl!"print-relative-path")]
      let wrapped := match p.body with
        | .list [.sym a, _, last] => a = cl!"and" && last == implicit
        | _ => false
      let mentions := (Scheme.symbols p.body).any (· = cl!"print-relative-path")
      if e.hasAction then
        if mentions then some "implicit-print-added-despite-an-action" else none
      else if wrapped then none else some "implicit-print-missing-or-misplaced"
  | _, .panic stg => some ("panic " ++ stg)
  | _, _ => none

def targetOf (a : Action) : Option Target := Spec.target a
def actionsOf (e : Expr) : List Action := Spec.actionsOf e

def dedup {α} [DecidableEq α] : List α → List α
  | [] => []
  | x :: xs => if xs.any (· = x) then dedup xs else x :: dedup xs

/-- C10 (structure): mode choice and destination table. -/
def checkC10 (req : List String) (obs : String) : Option String :=
  match treeOf req obs, decodeCompile obs with
  | some e, .ok _ _ m0 ((text, _) :: _) =>
    let framedWanted := e.complexFrames      -- oracle proved equal to Spec.NeedsFraming (Theorems/C19)
    let framed : Bool := decide (m0 ≠ "none")
    if framed != framedWanted then some s!"wrong-output-mode framed={framed} wanted={framedWanted}" else
    if !framed then none else
    match (Sx.parse (m0.replace "," " ")) with
    | some (.list (.atom "#" :: entries)) =>
      let targets : List String := entries.filterMap fun en => match en with
        | .list [_, t] => some t.print
        | _ => none
      let keys : List String := entries.filterMap fun en => match en with
        | .list [.atom k, _] => some k
        | _ => none
      let wanted := dedup ((actionsOf e).filterMap targetOf)
      let wantedS := wanted.map fun t => (targetSx t).print
      if hasDupS targets then some "two-tags-for-one-destination"
      else if hasDupS keys then some "duplicate-tag"
      else if !(wantedS.all fun w => targets.any (· = w)) then some "action-destination-missing-from-table"
      else if !(targets.all fun t => wantedS.any (· = t)) then some "table-names-a-destination-no-action-has"
      else
        -- each printer lambda frames with its own tag, and that tag is a key of the table
        match readProgram text with
        | none => some "program-does-not-read-back"
        | some p =>
          -- a runtime procedure that writes straight to the shared port produces bytes outside any frame
          if (Scheme.symbols p.body).any (fun s => s = cl!"print-file-fid" || s = cl!"print-relative-path") then
            some "unframed-write-in-framed-mode"
          else
          let bad := p.bindings.findSome? fun (n, ini) =>
            if isPrefix (cl!"%lf3:print:") n then
              match ini with
              | .list [.sym _, .list [.sym _], .list [.sym fr, .sym _, .chr c]] =>
                if fr = cl!"%lf3:frame:2" && natToDec c = n.drop 11 && keys.any (· = toString c) then none
                else some ("printer-tag-mismatch " ++ String.ofList n)
              | _ => some ("printer-not-framing " ++ String.ofList n)
            else none
          match bad with
          | some b => some b
          | none =>
            -- each action's frames carry the tag whose table entry is that action's destination and terminator
            match decodeIoMap m0 with
            | some io => reachProblem e p io true
            | none => some "unreadable-destination-table"
    | _ => some "unreadable-destination-table"
  | _, .panic stg => some ("panic " ++ stg)
  | _, _ => none
where
  hasDupS : List String → Bool
    | [] => false
    | x :: xs => xs.any (· = x) || hasDupS xs

/-- C16 (structure): every write to a shared port happens inside the mutex created with it. -/
def checkC16 (obs : String) : Option String :=
  match decodeCompile obs with
  | .ok _ _ m0 ((text, _) :: _) =>
    match readProgram text with
    | none => some "program-does-not-read-back"
    | some p =>
      let sym (s : Text) := Scheme.SExp.sym s
      if m0 ≠ "none" then
        -- framed: ONE procedure (whatever its parameters are called) writes payload and tag under one mutex object on
        -- one port, and it is the only place that displays
        let isMutex (nm : Text) := p.bindings.any fun b => b.1 = nm && b.2 == .list [sym (cl!"make-mutex")]
        let isFrame (ini : Scheme.SExp) : Bool :=
          match ini with
          | .list [.sym lam, .list [.sym a, .sym b],
              .list [.sym wm, .sym m, .list [.sym d1, .sym a', .sym port], .list [.sym d2, .list [.sym str, .chr 0x1e, .sym b'], .sym port']]] =>
            lam = cl!"lambda" && wm = cl!"with-mutex" && d1 = cl!"display" && d2 = cl!"display" && str = cl!"string"
              && a = a' && b = b' && a ≠ b && port = port' && isMutex m && (p.bindings.any fun x => x.1 = port)
          | _ => false
        let frames := p.bindings.filter fun b => isFrame b.2
        let frameOk := frames.length == 1
        let mutexOk := true
        let displaysElsewhere := (p.bindings.filter (fun b => !isFrame b.2)).any fun (_, ini) =>
          (Scheme.symbols ini).any (· = cl!"display")
        let bodyDisplays := (Scheme.symbols p.body).any (· = cl!"display")
        let rawPrinter := p.bindings.any fun (_, ini) => (Scheme.symbols ini).any (· = cl!"make-printer")
        let rawBody := (Scheme.symbols p.body).any fun s => s = cl!"print-file-fid" || s = cl!"print-relative-path"
        if !frameOk then some "frame-procedure-not-well-locked"
        else if !mutexOk then some "frame-mutex-not-a-mutex"
        else if displaysElsewhere || bodyDisplays then some "write-outside-the-frame-procedure"
        else if rawPrinter then some "unframed-printer-in-framed-mode"
        else if rawBody then some "unframed-write-in-framed-mode"
        else none
      else
        -- plain: every printer is (make-printer port mutex term) with the mutex created for that port
        let bad := p.bindings.findSome? fun (n, ini) =>
          match ini with
          | .list (.sym mp :: args) =>
            if mp = cl!"make-printer" then
              match args with
              | [.sym port, .sym mutex, _] =>
                -- the mutex must be a mutex and the port a bound port; that printers on one port object hold one
                -- and the same mutex object is checked below on the resolved objects (names and numbering are free)
                if (p.bindings.any fun b => b.1 = mutex && b.2 == .list [sym (cl!"make-mutex")])
                    && (p.bindings.any fun b => b.1 = port) then none
                else some ("printer-mutex-not-a-mutex-or-port-unbound " ++ String.ofList n)
              | _ => some ("printer-shape " ++ String.ofList n)
            else if isPrefix (cl!"%lf3:print:") n then
              -- a record must be written inside ONE critical section: only make-printer gives that
              some ("printer-not-a-single-critical-section " ++ String.ofList n)
            else none
          | _ => if isPrefix (cl!"%lf3:print:") n then some ("printer-not-a-single-critical-section " ++ String.ofList n) else none
        -- the objects each printer captures, resolved the way let* does (the latest earlier binding
        -- of the name): printers on one port object must hold one and the same mutex object
        let resolve (k : Nat) (nm : Text) : Option Nat :=
          (((p.bindings.take k).zipIdx.filter (fun x => x.1.1 = nm)).getLast?).map (·.2)
        -- a port object is identified by what its variable is bound to: every (current-output-port) is the
        -- one standard output, every (open-file NAME ..) of one NAME is one destination
        let portKey (k : Nat) (nm : Text) : Option Scheme.SExp :=
          (resolve k nm).bind fun j => (p.bindings[j]?).map fun b => b.2
        let captured : List (Option Scheme.SExp × Option Nat) := p.bindings.zipIdx.filterMap fun (b, k) =>
          match b.2 with
          | .list [.sym mp, .sym port, .sym mutex, _] =>
            if mp = cl!"make-printer" then some (portKey k port, resolve k mutex) else none
          | _ => none
        let clash := captured.any fun a => captured.any fun b => a.1 == b.1 && a.2 != b.2
        let unbound := captured.any fun a => a.1.isNone || a.2.isNone
        match bad with
        | some b => some b
        | none =>
          if clash then some "two-mutex-objects-guard-one-port"
          else if unbound then some "printer-captures-an-unbound-port-or-mutex"
          else
          -- plain mode carries terminated lines only: a printer without terminator must be fed newline-ended text
          let bare : List Text := p.bindings.filterMap fun (n, ini) =>
            match ini with
            | .list [.sym mp, _, _, .bool false] => if mp = cl!"make-printer" then some n else none
            | _ => none
          (Scheme.sublists p.body).findSome? fun l =>
            match l with
            | [.sym pr, .list (.sym fm :: .bool false :: .str tmpl :: _)] =>
              if bare.any (· = pr) && fm = cl!"format" && tmpl.getLast? ≠ some '\n' then
                some ("unterminated-record-in-plain-mode " ++ String.ofList pr)
              else none
            | _ => none
  | .panic stg => some ("panic " ++ stg)
  | _ => none

/-- C15: the embedded clock second(s) lie within the compile call. -/
def clockProblem (obs : String) : Option String :=
  match decodeCompile obs with
  | .ok t0 t1 _ ((text, _) :: _) =>
    match readProgram text with
    | none => none
    | some p =>
      let secs : List Nat := (Scheme.sublists p.body).filterMap fun l => match l with
        | [.sym m, .num n, .list [.sym f]] =>
          if m = cl!"-" && (f = cl!"atime" || f = cl!"ctime" || f = cl!"mtime") then some n else none
        | _ => none
      if secs.all fun s => t0 ≤ s && s ≤ t1 then
        (if (secs.zip secs.tail).all fun ab => ab.1 ≤ ab.2 then none else some "embedded-seconds-decrease")
      else some s!"embedded-second-outside-the-compile-call [{t0},{t1}] {secs}"
  | _ => none

/-- C15 group key: the observation with clock readings replaced. -/
def clockFree (obs : String) : String :=
  match decodeCompile obs with
  | .ok t0 t1 _ _ =>
    let h0 := (hexOfText (toString t0).toList).drop 1
    let h1 := (hexOfText (toString t1).toList).drop 1
    (((obs.replace h0 "TT").replace h1 "TT").replace (toString t0) "T").replace (toString t1) "T"
  | _ => obs

def checkC15 (st : DState) (req : List String) (obs : String) : DState × Option String :=
  match clockProblem obs with
  | some p => (st, some p)
  | none =>
    match annot req "grp" with
    | none => (st, none)
    | some g =>
      let key := clockFree obs
      match st.groups.find? (fun kv => kv.1 = g) with
      | none => ({ st with groups := (g, key) :: st.groups.take 256 }, none)
      | some (_, first) =>
        if first = key then (st, none) else (st, some "same-input-different-result")

mutual
def numLeaves : Scheme.SExp → List Nat
  | .num n => [n]
  | .list items => numLeavesL items
  | _ => []
def numLeavesL : List Scheme.SExp → List Nat
  | [] => []
  | x :: xs => numLeaves x ++ numLeavesL xs
end

/-- The integer constants a numeric primary must contribute to the policy body, from the spec
    token alone (count × unit in unbounded arithmetic); `none` for the clock reading. -/
def wantedNumbers (t : Token) : Option (List (Option Nat)) :=
  let cmpN (c : Comparison Nat) := [some c.val]
  match t with
  | .test (.userId c) | .test (.groupId c) | .test (.inodeNumber c) | .test (.links c)
  | .test (.mirrorCount c) | .test (.stripeCount c) => some (cmpN c)
  | .test (.size c) =>
    let s := c.val
    some (match s with
      | .byte n => [some n]
      | _ => [some s.mult, some (s.count * s.mult)])
  | .test (.accessTime c) | .test (.changeTime c) | .test (.modifyTime c) =>
    some [none, some c.val.secs, some c.val.count]
  | _ => none

/-- C07 on the emitted program: the constants are exactly count × unit (read back as integers). -/
def checkC07Emit (req : List String) (obs : String) : Option String :=
  -- a requested thread count, wherever it stands among other options, is carried unchanged
  match (annot req "threads").bind String.toNat? with
  | some n =>
    match decodeParse (splitBar obs).1, decodeCompile obs with
    | .ok o _, .ok _ _ _ ((text, _) :: _) =>
      if o.threads ≠ some n then some s!"thread-count-not-carried-into-the-options want={n}"
      else match readProgram text with
        | some p => if p.threads == .num n then none else some s!"thread-count-not-carried-into-the-program want={n}"
        | none => some "program-does-not-read-back"
    | .ok o _, _ => if o.threads ≠ some n then some s!"thread-count-not-carried-into-the-options want={n}" else none
    | .err _ _ _ _ _, _ => some s!"thread-count-rejected want={n}"
    | _, _ => none
  | none =>
  match annotText req "kw", annotTexts req "args" with
  | some kw, some args =>
    match Spec.expectedToken (String.ofList kw) args, decodeCompile obs with
    | .token (.global (.threads n)), .ok _ _ _ ((text, _) :: _) =>
      match readProgram text with
      | some p => if p.threads == .num n then none else some s!"thread-count-not-carried want={n}"
      | none => some "program-does-not-read-back"
    | .token t, .ok t0 t1 _ ((text, _) :: _) =>
      -- `#nums=`: the primary stands in a chain of other numeric tests; the annotation lists every constant of
      -- the input in order (the generator knows them), so the whole list is compared
      let wanted : Option (List (Option Nat)) := match annot req "nums" with
        | some v => some ((v.splitOn ",").map fun x => x.toNat?)
        | none => wantedNumbers t
      match wanted, readProgram text with
      | some want, some p =>
        let got := numLeaves p.body
        if got.length ≠ want.length then some s!"constants want={want} got={got}"
        else if (want.zip got).all (fun (w, g) => match w with
            | some n => n == g
            | none => t0 ≤ g && g ≤ t1) then none
        else some s!"emitted-constant-differs want={want} got={got}"
      | some _, none => some "program-does-not-read-back"
      | none, _ => none
    | _, _ => none
  | _, _ => none

def propCheck (prop : String) (st : DState) (req : List String) (obs : String) : DState × Option String :=
  match prop, req with
  | "C01", "P" :: hx :: _ => (st, (textOfHex hx).bind fun input => checkC01 input obs)
  | "C19", _ => (st, checkC19 (stripAnnot req) obs)
  | "C05", _ => (st, checkPrimary req obs)
  | "C07", _ => (st, match checkPrimary req obs with
      | some w => some w
      | none => checkC07Emit req obs)
  | "C08", _ => (st, checkPrimary req obs)
  | "C14", _ => (st, checkPrimary req obs)
  | "C18", _ => (st, checkC18 req obs)
  | "C03", _ => (st, checkC03 obs)
  | "C17", _ => (st, checkC03 obs)
  | "C06", _ => groupCheck prop st req obs
  | "C13", _ =>
    match checkC13 req obs with
    | some why => (st, some why)
    | none => groupCheck prop st req obs
  | "C12", _ => (st, checkC12 req obs)
  | "C04", _ => checkC04 st req obs
  | "C20", _ => (st, checkC20 req obs)
  | "C11", _ => (st, checkC11 req obs)
  | "C09", _ => (st, checkC09 req obs)
  | "C10", _ => (st, checkC10 req obs)
  | "C16", _ => (st, checkC16 obs)
  | "C15", _ => checkC15 st req obs
  | _, _ => (st, none)

end FV
