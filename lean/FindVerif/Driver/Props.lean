import FindVerif.Driver.Lines
import FindVerif.Spec.Grammar
import FindVerif.Spec.Scheme.Read
/-
  Property predicates evaluated on the IMPLEMENTATION's observation (independent of whether the
  model agrees with it): `none` = holds, `some reason` = the implementation fails the property
  on this request.
-/
namespace FV
open Sx

/-- Decoded implementation observation of a parse. -/
inductive ImplParse where
  | ok (o : RunOptions) (e : Expr)
  | err (variant : String) (f0 f1 f2 : Option Text) (text : Text)
  | panic (msg : String)
  | other (s : String)

def optHex (s : String) : Option Text := if s = "-" then none else textOfHex s

def decodeParse (obs : String) : ImplParse :=
  match obs.splitOn " " with
  | "OK" :: d :: th :: treeToks =>
    match (Sx.parse (" ".intercalate treeToks)).bind dExpr with
    | some e => .ok { depth := d = "1", threads := if th = "-" then none else th.toNat? } e
    | none => .other obs
  | ["ERR", v, f0, f1, f2, text] => .err v (optHex f0) (optHex f1) (optHex f2) ((textOfHex text).getD [])
  | "PANIC" :: rest => .panic (" ".intercalate rest)
  | _ => .other obs

/-! ### C01 -/

/-- The word table of the C01 stream (spec side): words are separated by single spaces. -/
def c01Tokens : List String → Option (List Token)
  | [] => some []
  | "(" :: r => (c01Tokens r).map (Token.lparen :: ·)
  | ")" :: r => (c01Tokens r).map (Token.rparen :: ·)
  | "!" :: r => (c01Tokens r).map (Token.not :: ·)
  | "," :: r => (c01Tokens r).map (Token.comma :: ·)
  | "-a" :: r => (c01Tokens r).map (Token.and :: ·)
  | "-and" :: r => (c01Tokens r).map (Token.and :: ·)
  | "-o" :: r => (c01Tokens r).map (Token.or :: ·)
  | "-or" :: r => (c01Tokens r).map (Token.or :: ·)
  | "-true" :: r => (c01Tokens r).map (Token.test .true_ :: ·)
  | "-false" :: r => (c01Tokens r).map (Token.test .false_ :: ·)
  | "-name" :: "x" :: r => (c01Tokens r).map (Token.test (.name ['x']) :: ·)
  | _ => none

/-- C01 on the implementation: accepted exactly when the words form a sentence, with the
    grammar's tree.  The oracle is `climb`, proved equivalent to `Spec.GList` (Theorems/C01). -/
def checkC01 (input : Text) (obs : String) : Option String :=
  let words := ((String.ofList input).splitOn " ").filter (· ≠ "")
  match c01Tokens words with
  | none => none     -- not a C01 request
  | some [] =>
    match decodeParse obs with
    | .ok o e => if e = .test .true_ && o = {} then none else some "empty-input-not-true"
    | _ => some "empty-input-rejected"
  | some ts =>
    match climb .release ts, decodeParse obs with
    | .ok e _, .ok o e' =>
      if e = e' && o = {} then none else some s!"wrong-tree expected={(exprSx e).print}"
    | .ok e _, _ => some s!"sentence-rejected expected={(exprSx e).print}"
    | _, .ok _ e' => some s!"non-sentence-accepted got={(exprSx e').print}"
    | _, .err _ _ _ _ _ => none
    | _, .panic m => some ("panic " ++ m)
    | _, .other s => some ("unreadable-observation " ++ s)

/-! ### C19 -/

def sizeUnitOf : String → Option Nat
  | "Byte" => some 1 | "Word" => some 2 | "Block" => some 512 | "KiloByte" => some (2^10)
  | "MegaByte" => some (2^20) | "GigaByte" => some (2^30) | "TeraByte" => some (2^40) | _ => none

def timeUnitOf : String → Option Nat
  | "Second" => some 1 | "Minute" => some 60 | "Hour" => some 3600 | "Day" => some 86400 | _ => none

/-- C19 on the implementation.  `hasAction`/`complexFrames` are the oracle, proved equivalent to
    `Spec.ContainsAction`/`Spec.NeedsFraming` (Theorems/C19). -/
def checkC19 (req : List String) (obs : String) : Option String :=
  match req with
  | "T" :: _ :: _ :: _ :: treeToks =>
    match (Sx.parse (" ".intercalate treeToks)).bind dExpr with
    | none => none
    | some e =>
      let want := "Q " ++ (if e.hasAction then "1" else "0") ++ " " ++ (if e.complexFrames then "1" else "0")
      let got := (splitBar obs).1
      if got = want then none else some s!"helpers-disagree-with-tree want=[{want}] got=[{got}]"
  | ["U", "S", v, n] =>
    match sizeUnitOf v, obs.splitOn " " with
    | some u, ["US", m, b] =>
      if m ≠ toString u then some s!"wrong-size-unit {v} {m}"
      else if n.toNat! * u < 2^64 && b ≠ toString (n.toNat! * u) then some s!"wrong-byte-size {v} {n} {b}"
      else none
    | _, _ => some "unreadable-unit-observation"
  | ["U", "T", v, _] =>
    match timeUnitOf v, obs.splitOn " " with
    | some u, ["UT", m] => if m = toString u then none else some s!"wrong-time-unit {v} {m}"
    | _, _ => some "unreadable-unit-observation"
  | _ => none

def stripAnnot (req : List String) : List String := req.filter (fun p => !p.startsWith "#")

def propCheck (prop : String) (req : List String) (obs : String) : Option String :=
  match prop, req with
  | "C01", "P" :: hx :: _ => (textOfHex hx).bind fun input => checkC01 input obs
  | "C19", _ => checkC19 (stripAnnot req) obs
  | _, _ => none

end FV
