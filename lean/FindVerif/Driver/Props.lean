import FindVerif.Driver.Lines
import FindVerif.Spec.Grammar
import FindVerif.Spec.Scheme.Read
/-
  Property predicates evaluated on the IMPLEMENTATION's observation (independent of whether the
  model agrees with it): `none` = holds, `some reason` = the implementation fails the property
  on this request.
-/
namespace FV
open Sx

/-- Decoded implementation observation of a parse. -/
inductive ImplParse where
  | ok (o : RunOptions) (e : Expr)
  | err (variant : String) (f0 f1 f2 : Option Text) (text : Text)
  | panic (msg : String)
  | other (s : String)

def optHex (s : String) : Option Text := if s = "-" then none else textOfHex s

def decodeParse (obs : String) : ImplParse :=
  match obs.splitOn " " with
  | "OK" :: d :: th :: treeToks =>
    match (Sx.parse (" ".intercalate treeToks)).bind dExpr with
    | some e => .ok { depth := d = "1", threads := if th = "-" then none else th.toNat? } e
    | none => .other obs
  | ["ERR", v, f0, f1, f2, text] => .err v (optHex f0) (optHex f1) (optHex f2) ((textOfHex text).getD [])
  | "PANIC" :: rest => .panic (" ".intercalate rest)
  | _ => .other obs

/-! ### C01 -/

/-- The word table of the C01 stream (spec side): words are separated by single spaces. -/
def c01Tokens : List String → Option (List Token)
  | [] => some []
  | "(" :: r => (c01Tokens r).map (Token.lparen :: ·)
  | ")" :: r => (c01Tokens r).map (Token.rparen :: ·)
  | "!" :: r => (c01Tokens r).map (Token.not :: ·)
  | "," :: r => (c01Tokens r).map (Token.comma :: ·)
  | "-a" :: r => (c01Tokens r).map (Token.and :: ·)
  | "-and" :: r => (c01Tokens r).map (Token.and :: ·)
  | "-o" :: r => (c01Tokens r).map (Token.or :: ·)
  | "-or" :: r => (c01Tokens r).map (Token.or :: ·)
  | "-true" :: r => (c01Tokens r).map (Token.test .true_ :: ·)
  | "-false" :: r => (c01Tokens r).map (Token.test .false_ :: ·)
  | "-name" :: "x" :: r => (c01Tokens r).map (Token.test (.name ['x']) :: ·)
  | _ => none

/-- C01 on the implementation: accepted exactly when the words form a sentence, with the
    grammar's tree.  The oracle is `climb`, proved equivalent to `Spec.GList` (Theorems/C01). -/
def checkC01 (input : Text) (obs : String) : Option String :=
  let words := ((String.ofList input).splitOn " ").filter (· ≠ "")
  match c01Tokens words with
  | none => none     -- not a C01 request
  | some [] =>
    match decodeParse obs with
    | .ok o e => if e = .test .true_ && o = {} then none else some "empty-input-not-true"
    | _ => some "empty-input-rejected"
  | some ts =>
    match climb .release ts, decodeParse obs with
    | .ok e _, .ok o e' =>
      if e = e' && o = {} then none else some s!"wrong-tree expected={(exprSx e).print}"
    | .ok e _, _ => some s!"sentence-rejected expected={(exprSx e).print}"
    | _, .ok _ e' => some s!"non-sentence-accepted got={(exprSx e').print}"
    | _, .err _ _ _ _ _ => none
    | _, .panic m => some ("panic " ++ m)
    | _, .other s => some ("unreadable-observation " ++ s)

def propCheck (prop : String) (req : List String) (obs : String) : Option String :=
  match prop, req with
  | "C01", "P" :: hx :: _ => (textOfHex hx).bind fun input => checkC01 input obs
  | _, _ => none

end FV
