import FindVerif.Driver.Lines
import FindVerif.Spec.Grammar
import FindVerif.Spec.Scheme.Read
import FindVerif.Spec.Vocab
import FindVerif.Spec.Options
/-
  Property predicates evaluated on the IMPLEMENTATION's observation (independent of whether the
  model agrees with it): `none` = holds, `some reason` = the implementation fails the property
  on this request.
-/
namespace FV
open Sx

/-- Decoded implementation observation of a parse. -/
inductive ImplParse where
  | ok (o : RunOptions) (e : Expr)
  | err (variant : String) (f0 f1 f2 : Option Text) (text : Text)
  | panic (msg : String)
  | other (s : String)

def optHex (s : String) : Option Text := if s = "-" then none else textOfHex s

def decodeParse (obs : String) : ImplParse :=
  match obs.splitOn " " with
  | "OK" :: d :: th :: treeToks =>
    match (Sx.parse (" ".intercalate treeToks)).bind dExpr with
    | some e => .ok { depth := d = "1", threads := if th = "-" then none else th.toNat? } e
    | none => .other obs
  | ["ERR", v, f0, f1, f2, text] => .err v (optHex f0) (optHex f1) (optHex f2) ((textOfHex text).getD [])
  | "PANIC" :: rest => .panic (" ".intercalate rest)
  | _ => .other obs

/-! ### C01 -/

/-- The word table of the C01 stream (spec side): words are separated by single spaces. -/
def c01Tokens : List String → Option (List Token)
  | [] => some []
  | "(" :: r => (c01Tokens r).map (Token.lparen :: ·)
  | ")" :: r => (c01Tokens r).map (Token.rparen :: ·)
  | "!" :: r => (c01Tokens r).map (Token.not :: ·)
  | "," :: r => (c01Tokens r).map (Token.comma :: ·)
  | "-a" :: r => (c01Tokens r).map (Token.and :: ·)
  | "-and" :: r => (c01Tokens r).map (Token.and :: ·)
  | "-o" :: r => (c01Tokens r).map (Token.or :: ·)
  | "-or" :: r => (c01Tokens r).map (Token.or :: ·)
  | "-true" :: r => (c01Tokens r).map (Token.test .true_ :: ·)
  | "-false" :: r => (c01Tokens r).map (Token.test .false_ :: ·)
  | "-name" :: "x" :: r => (c01Tokens r).map (Token.test (.name ['x']) :: ·)
  | _ => none

/-- C01 on the implementation: accepted exactly when the words form a sentence, with the
    grammar's tree.  The oracle is `climb`, proved equivalent to `Spec.GList` (Theorems/C01). -/
def checkC01 (input : Text) (obs : String) : Option String :=
  let words := ((String.ofList input).splitOn " ").filter (· ≠ "")
  match c01Tokens words with
  | none => none     -- not a C01 request
  | some [] =>
    match decodeParse obs with
    | .ok o e => if e = .test .true_ && o = {} then none else some "empty-input-not-true"
    | _ => some "empty-input-rejected"
  | some ts =>
    match climb .release ts, decodeParse obs with
    | .ok e _, .ok o e' =>
      if e = e' && o = {} then none else some s!"wrong-tree expected={(exprSx e).print}"
    | .ok e _, _ => some s!"sentence-rejected expected={(exprSx e).print}"
    | _, .ok _ e' => some s!"non-sentence-accepted got={(exprSx e').print}"
    | _, .err _ _ _ _ _ => none
    | _, .panic m => some ("panic " ++ m)
    | _, .other s => some ("unreadable-observation " ++ s)

/-! ### C19 -/

def sizeUnitOf : String → Option Nat
  | "Byte" => some 1 | "Word" => some 2 | "Block" => some 512 | "KiloByte" => some (2^10)
  | "MegaByte" => some (2^20) | "GigaByte" => some (2^30) | "TeraByte" => some (2^40) | _ => none

def timeUnitOf : String → Option Nat
  | "Second" => some 1 | "Minute" => some 60 | "Hour" => some 3600 | "Day" => some 86400 | _ => none

/-- C19 on the implementation.  `hasAction`/`complexFrames` are the oracle, proved equivalent to
    `Spec.ContainsAction`/`Spec.NeedsFraming` (Theorems/C19). -/
def checkC19 (req : List String) (obs : String) : Option String :=
  match req with
  | "T" :: _ :: _ :: _ :: treeToks =>
    match (Sx.parse (" ".intercalate treeToks)).bind dExpr with
    | none => none
    | some e =>
      let want := "Q " ++ (if e.hasAction then "1" else "0") ++ " " ++ (if e.complexFrames then "1" else "0")
      let got := (splitBar obs).1
      if got = want then none else some s!"helpers-disagree-with-tree want=[{want}] got=[{got}]"
  | ["U", "S", v, n] =>
    match sizeUnitOf v, obs.splitOn " " with
    | some u, ["US", m, b] =>
      if m ≠ toString u then some s!"wrong-size-unit {v} {m}"
      else if n.toNat! * u < 2^64 && b ≠ toString (n.toNat! * u) then some s!"wrong-byte-size {v} {n} {b}"
      else none
    | _, _ => some "unreadable-unit-observation"
  | ["U", "T", v, _] =>
    match timeUnitOf v, obs.splitOn " " with
    | some u, ["UT", m] => if m = toString u then none else some s!"wrong-time-unit {v} {m}"
    | _, _ => some "unreadable-unit-observation"
  | _ => none

def stripAnnot (req : List String) : List String := req.filter (fun p => !p.startsWith "#")

/-- `#key=value` annotations of a request. -/
def annot (req : List String) (key : String) : Option String :=
  req.findSome? fun p =>
    if p.startsWith ("#" ++ key ++ "=") then some ((p.drop (key.length + 2)).toString) else none

def annotText (req : List String) (key : String) : Option Text := (annot req key).bind textOfHex

def annotTexts (req : List String) (key : String) : Option (List Text) :=
  match annot req key with
  | none => none
  | some "" => some []
  | some v => (v.splitOn ",").mapM textOfHex

/-! ### C05 / C07 / C08 / C14: one primary in a known context -/

/-- Tokens of the request: the primary (from the spec vocabulary) placed in the annotated context. -/
def ctxTokens (ctx : String) (t : Token) : Option (List Token) :=
  let tt := Token.test .true_
  let ff := Token.test .false_
  match ctx with
  | "alone" => some [t]
  | "after" => some [tt, t]
  | "before" => some [t, ff]
  | "paren" => some [.lparen, t, .rparen]
  | "not" => some [.not, t]
  | "mid" => some [tt, t, .or, ff]
  | "list" => some [ff, .comma, t, tt]
  | _ => none

/-- Expected observation class for `keyword args` in a context, from the spec alone. -/
inductive Want where
  | result (o : RunOptions) (e : Expr)
  | reject
  | nothing

def wantPrimary (req : List String) : Want :=
  match annotText req "kw", annotTexts req "args", annot req "ctx" with
  | some kw, some args, some ctx =>
    match Spec.expectedToken (String.ofList kw) args with
    | .unknown => .nothing
    | .reject => .reject
    | .token t =>
      match ctxTokens ctx t with
      | none => .nothing
      | some ts =>
        match climb .release (Spec.expressionOf ts) with
        | .ok e _ => .result (Spec.optionsOf ts) e
        | _ => .nothing
  | _, _, _ => .nothing

def checkPrimary (req : List String) (obs : String) : Option String :=
  match wantPrimary req, decodeParse (splitBar obs).1 with
  | .nothing, .panic m => some ("panic " ++ m)
  | .nothing, _ => none
  | .reject, .err _ _ _ _ _ => none
  | .reject, .ok _ e => some s!"argument-outside-language-accepted got={(exprSx e).print}"
  | .reject, .panic m => some ("panic " ++ m)
  | .reject, .other s => some ("unreadable-observation " ++ s)
  | .result o e, .ok o' e' =>
    if e = e' && o = o' then none
    else some s!"wrong-node expected={optionsStr o} {(exprSx e).print} got={optionsStr o'} {(exprSx e').print}"
  | .result _ e, .err v _ _ _ _ => some s!"member-of-language-rejected ({v}) expected={(exprSx e).print}"
  | .result _ _, .panic m => some ("panic " ++ m)
  | .result _ _, .other s => some ("unreadable-observation " ++ s)

/-! ### C18: error messages -/

def isInfix (a b : Text) : Bool :=
  (List.range (b.length + 1)).any fun k => isPrefix a (b.drop k)

/-- Segments of a message between backquotes. -/
def backquoted : Text → List Text
  | [] => []
  | c :: cs =>
    if c = '`' then
      let seg := cs.takeWhile (· ≠ '`')
      match cs.dropWhile (· ≠ '`') with
      | _ :: rest => seg :: backquoted' rest rest.length
      | [] => []
    else backquoted cs
where
  backquoted' (t : Text) : Nat → List Text
    | 0 => []
    | n + 1 =>
      match t with
      | [] => []
      | c :: cs =>
        if c = '`' then
          let seg := cs.takeWhile (· ≠ '`')
          match cs.dropWhile (· ≠ '`') with
          | _ :: rest => seg :: backquoted' rest n
          | [] => []
        else backquoted' cs n

def checkC18 (req : List String) (obs : String) : Option String :=
  match req with
  | "P" :: hx :: _ =>
    match textOfHex hx, annot req "kind", annotText req "word" with
    | some input, some kind, some word =>
      match decodeParse obs with
      | .err _ _ _ _ text =>
        let quoted := backquoted text
        if text.isEmpty then some "empty-message"
        else if !(quoted.all fun q => isInfix q input) then some "message-quotes-text-not-in-input"
        else if !(quoted.any (· = word)) then some s!"message-does-not-quote-the-word"
        else if kind = "unknown" then none
        else match annotText req "kw" with
          | some kw => if quoted.any (· = kw) then none else some "message-does-not-name-the-keyword"
          | none => none
      | .ok _ e => some s!"invalid-input-accepted got={(exprSx e).print}"
      | .panic m => some ("panic " ++ m)
      | .other s => some ("unreadable-observation " ++ s)
    | _, _, _ => none
  | _ => none

/-! ### C03: outcome class -/

def checkC03 (obs : String) : Option String :=
  if (obs.splitOn " ").any (· = "PANIC") then some ("panic: " ++ obs.take 200)
  else if obs.startsWith "ABORT" || obs.startsWith "TIMEOUT" then some obs
  else
    -- rendering an error as text always succeeds and is never empty
    match decodeParse (splitBar obs).1 with
    | .err _ _ _ _ text => if text.isEmpty then some "empty-error-text" else none
    | _ => none

/-! ### groups: requests that must give identical observations (C06, C13, C15) -/

structure DState where
  groups : List (String × String) := []

def groupCheck (prop : String) (st : DState) (req : List String) (obs : String) : DState × Option String :=
  match annot req "grp" with
  | none => (st, none)
  | some g =>
    let key := match prop with
      | "C13" => " ".intercalate (((splitBar obs).1.splitOn " ").drop 3)
      | _ => (splitBar obs).1
    match st.groups.find? (fun kv => kv.1 = g) with
    | none => ({ st with groups := (g, key) :: st.groups.take 64 }, none)
    | some (_, first) =>
      if first = key then (st, none)
      else (st, some s!"equivalent-inputs-differ first=[{first.take 300}] this=[{key.take 300}]")

/-- C13: the options carried by the result are the annotated ones. -/
def checkC13 (req : List String) (obs : String) : Option String :=
  match annot req "opts", decodeParse (splitBar obs).1 with
  | some want, .ok o _ =>
    if want = "any" || optionsStr o = want.replace "_" " " then none
    else some s!"wrong-options want={want} got={optionsStr o}"
  | some _, .panic m => some ("panic " ++ m)
  | some want, .err v _ _ _ _ => if want = "any" then none else some s!"rejected ({v})"
  | _, _ => none

def propCheck (prop : String) (st : DState) (req : List String) (obs : String) : DState × Option String :=
  match prop, req with
  | "C01", "P" :: hx :: _ => (st, (textOfHex hx).bind fun input => checkC01 input obs)
  | "C19", _ => (st, checkC19 (stripAnnot req) obs)
  | "C05", _ => (st, checkPrimary req obs)
  | "C07", _ => (st, checkPrimary req obs)
  | "C08", _ => (st, checkPrimary req obs)
  | "C14", _ => (st, checkPrimary req obs)
  | "C18", _ => (st, checkC18 req obs)
  | "C03", _ => (st, checkC03 obs)
  | "C17", _ => (st, checkC03 obs)
  | "C06", _ => groupCheck prop st req obs
  | "C13", _ =>
    match checkC13 req obs with
    | some why => (st, some why)
    | none => groupCheck prop st req obs
  | _, _ => (st, none)

end FV
