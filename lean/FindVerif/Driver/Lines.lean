import FindVerif.Driver.Obs
/- Model observation for each request kind of the harness protocol. -/
namespace FV
open Sx

def profileOf (s : String) : Profile := if s = "release" then .release else .debug

def sizeOfName (v : String) (n : Nat) : Option Size :=
  match v with
  | "Byte" => some (.byte n) | "Word" => some (.word n) | "Block" => some (.block n)
  | "KiloByte" => some (.kilo n) | "MegaByte" => some (.mega n) | "GigaByte" => some (.giga n)
  | "TeraByte" => some (.tera n) | _ => none

def timeOfName (v : String) (n : Nat) : Option TimeSpec :=
  match v with
  | "Second" => some (.second n) | "Minute" => some (.minute n) | "Hour" => some (.hour n)
  | "Day" => some (.day n) | _ => none

/-- Splits `a | b` observation into the part before and after the bar. -/
def splitBar (obs : String) : String × String :=
  match obs.splitOn " | " with
  | [a] => (a, "")
  | a :: rest => (a, " | ".intercalate rest)
  | [] => ("", "")

/-- Clock fields `t0 t1` of a `COK t0 t1 …` observation. -/
def clockOf (cobs : String) : Option (String × String) :=
  match cobs.splitOn " " with
  | "COK" :: t0 :: t1 :: _ => some (t0, t1)
  | _ => none

inductive ModelObs where
  | obs (s : String)
  | skip (why : String)

/-- The model's observation for a request, given the implementation's (for the clock). -/
def modelObs (pf : Profile) (req : List String) (implObs : String) : ModelObs :=
  match req with
  | ["P", hx] =>
    match textOfHex hx with
    | none => .skip "bad-hex"
    | some input => .obs (parse pf input).obs
  | "C" :: hx :: hpaths =>
    match textOfHex hx, hpaths.mapM textOfHex with
    | some input, some paths =>
      let p := parse pf input
      match p with
      | .ok o e =>
        let (_, cimpl) := splitBar implObs
        let (t0, t1) := (clockOf cimpl).getD ("0", "0")
        if t0 ≠ t1 then .skip "clock-tick"
        else .obs (p.obs ++ " | " ++ compileObs t0 t1 (fun _ => t0.toNat!) e o paths)
      | _ => .obs p.obs
    | _, _ => .skip "bad-hex"
  | "T" :: d :: th :: hpath :: treeToks =>
    match textOfHex hpath, (Sx.parse (" ".intercalate treeToks)).bind dExpr with
    | some path, some e =>
      let o : RunOptions := { depth := d = "1", threads := if th = "-" then none else th.toNat? }
      let (_, cimpl) := splitBar implObs
      let (t0, t1) := (clockOf cimpl).getD ("0", "0")
      if t0 ≠ t1 then .skip "clock-tick"
      else
        let q := "Q " ++ (if e.hasAction then "1" else "0") ++ " " ++ (if e.complexFrames then "1" else "0")
        .obs (q ++ " | " ++ compileObs t0 t1 (fun _ => t0.toNat!) e o [path])
    | _, _ => .skip "bad-tree"
  | ["Z", _] => .obs "ZZ"
  | ["U", "S", v, n] =>
    match sizeOfName v n.toNat! with
    | some s =>
      let b := match s.byteSize (pf = .debug) with
        | some b => toString b
        | none => "PANIC"
      .obs s!"US {s.mult} {b}"
    | none => .skip "bad-unit"
  | ["U", "T", v, n] =>
    match timeOfName v n.toNat! with
    | some t => .obs s!"UT {t.secs}"
    | none => .skip "bad-unit"
  | ["U", "F", v] =>
    match dFileType (.atom v) with
    | some t => .obs s!"UF {t.octal}"
    | none => .skip "bad-unit"
  | _ => .skip "unknown-request"

end FV
