import FindVerif.Driver.Props
import FindVerif.Spec.Scheme.Eval
import FindVerif.Model.GenS
/-
  C02 on the IMPLEMENTATION's output: read the emitted program back, run it in the runtime model
  on a set of file records directed at every constant of the tree (plus pseudo-random
  combinations), and compare with find's rules applied to the tree.
-/
namespace FV
open Spec (File Rt Outcome Output Dest)

def lowerAscii (c : Char) : Char := if 'A' ≤ c && c ≤ 'Z' then Char.ofNat (c.toNat + 32) else c

/-- A small glob matcher (`*`, `?`, `[set]`, literal) — stands for the runtime's fnmatch in runs. -/
def globMatch : Nat → Text → Text → Bool
  | 0, _, _ => false
  | _ + 1, [], s => s.isEmpty
  | fuel + 1, '*' :: p, s =>
    globMatch fuel p s || (match s with
      | [] => false
      | _ :: s' => globMatch fuel ('*' :: p) s')
  | fuel + 1, '?' :: p, s => match s with
    | [] => false
    | _ :: s' => globMatch fuel p s'
  | fuel + 1, '[' :: p, s =>
    let set := p.takeWhile (· ≠ ']')
    match p.dropWhile (· ≠ ']'), s with
    | _ :: p', c :: s' => set.any (· = c) && globMatch fuel p' s'
    | _, _ => false
  | fuel + 1, c :: p, s => match s with
    | [] => false
    | d :: s' => c = d && globMatch fuel p s'

def rtConcrete : Rt where
  fnmatch ci p s :=
    let (p, s) := if ci then (p.map lowerAscii, s.map lowerAscii) else (p, s)
    globMatch (2 * (p.length + s.length) + 2) p s
  streqCi p s := p.map lowerAscii == s.map lowerAscii
  xattrGlob k v xs := xs.any fun kv => globMatch (2 * (k.length + kv.1.length) + 2) k kv.1 && globMatch (2 * (v.length + kv.2.length) + 2) v kv.2
  strftime c t := cl!"<" ++ [c] ++ cl!":" ++ natToDec t ++ cl!">"
  fmtFloat n d := natToDec n ++ cl!"/" ++ natToDec d
  dirname s := (s.reverse.dropWhile (· ≠ '/')).drop 1 |>.reverse
  typeChar m :=
    let t := m &&& 0o170000
    if t = 0o040000 then cl!"d" else if t = 0o100000 then cl!"f" else if t = 0o120000 then cl!"l"
    else if t = 0o010000 then cl!"p" else if t = 0o140000 then cl!"s" else if t = 0o060000 then cl!"b"
    else if t = 0o020000 then cl!"c" else cl!"?"

def baseFile (now : Nat) : File where
  name := cl!"foo"
  relPath := cl!"dir/foo"
  absPath := cl!"/mnt/dir/foo"
  mountPath := cl!"/mnt"
  size := 4096
  blocks := 8
  mode := 0o100644
  uid := 1000
  gid := 100
  ino := 42
  nlink := 1
  atime := now - 100000
  ctime := now - 200000
  mtime := now - 300000
  projid := 7
  fid := cl!"[0x200000401:0x1:0x0]"
  user := cl!"alice"
  group := cl!"staff"
  pools := [cl!"p1"]
  xattrs := [(cl!"user.a", cl!"v")]
  stripeCount := 2
  stripeSize := 1048576
  mirrorCount := 1
  empty := false
  readable := true
  writable := true
  executable := false

def around (n : Nat) : List Nat := [n - 1, n, n + 1]

def testVars (now : Nat) : Test → List (File → File)
  | .size c =>
    let u := c.val.mult
    let n := c.val.count * u
    ([0, n - u, n - u + 1, n - 1, n, n + 1, n + u - 1, n + u, n + u + 1]).map fun v f => { f with size := v }
  | .accessTime c => (times now c).map fun v f => { f with atime := v }
  | .changeTime c => (times now c).map fun v f => { f with ctime := v }
  | .modifyTime c => (times now c).map fun v f => { f with mtime := v }
  | .groupId c => (around c.val).map fun v f => { f with gid := v }
  | .userId c => (around c.val).map fun v f => { f with uid := v }
  | .inodeNumber c => (around c.val).map fun v f => { f with ino := v }
  | .links c => (around c.val).map fun v f => { f with nlink := v }
  | .mirrorCount c => (around c.val).map fun v f => { f with mirrorCount := v }
  | .stripeCount c => (around c.val).map fun v f => { f with stripeCount := v }
  | .perm p =>
    let m := match p with | .atLeast m | .any m | .equal m => m
    ([m, 0, 0o7777, m ^^^ 0o400, m ^^^ 0o040, m ^^^ 0o004, m ^^^ 0o100, m ^^^ 0o4000, m ||| 0o022, m &&& 0o7707]).flatMap fun v =>
      [fun f => { f with mode := 0o100000 ||| v }, fun f => { f with mode := 0o040000 ||| v }]
  | .type _ =>
    ([0o010000, 0o020000, 0o040000, 0o060000, 0o100000, 0o120000, 0o140000]).map fun t f => { f with mode := t ||| 0o644 }
  | .name s | .insensitiveName s => (names s).map fun v f => { f with name := v }
  | .path s | .insensitivePath s => (names s).map fun v f => { f with relPath := v }
  | .pool s => ([[s], [s ++ cl!"x"], [], [cl!"zz", s]]).map fun v f => { f with pools := v }
  | .xattr k => ([[(k, cl!"v")], [], [(k ++ cl!"x", cl!"v")]]).map fun v f => { f with xattrs := v }
  | .xattrMatch k v => ([[(k, v)], [(k, v ++ cl!"x")], [], [(k ++ cl!"x", v)]]).map fun x f => { f with xattrs := x }
  | .empty => [fun f => { f with empty := true }]
  | .executable => [fun f => { f with executable := true }]
  | .readable => [fun f => { f with readable := false }]
  | .writable => [fun f => { f with writable := false }]
  | _ => []
where
  times (now : Nat) (c : Comparison TimeSpec) : List Nat :=
    let u := c.val.secs
    let a := c.val.count * u
    ([a + u, a + u - 1, a + 1, a, a - 1, a - u, a - u + 1, 0]).filterMap (fun age => if age ≤ now then some (now - age) else none)
      ++ [now + 5, 0]
  names (s : Text) : List Text :=
    [s, s ++ cl!"x", s.map lowerAscii, s.map (fun c => if 'a' ≤ c && c ≤ 'z' then Char.ofNat (c.toNat - 32) else c), [],
     s.filter (fun c => c ≠ '*' && c ≠ '?'), cl!"a" ++ s.filter (fun c => c ≠ '*' && c ≠ '?') ++ cl!"b"]

def fieldVars : FormatField → List (File → File)
  | .sparseness => [fun f => { f with size := 0 }, fun f => { f with size := 1, blocks := 3 }]
  | .xattr a => [fun f => { f with xattrs := [(a, cl!"val")] }, fun f => { f with xattrs := [] }]
  | .permissionsOctal => [fun f => { f with mode := 0o104755 }]
  | .diskSizeKilos => [fun f => { f with blocks := 7 }, fun f => { f with blocks := 0 }]
  | .parents | .basename | .name | .nameWithoutStartingPoint =>
    [fun f => { f with relPath := cl!"foo", absPath := cl!"/mnt/foo" },
     fun f => { f with relPath := cl!"a/b/c/foo", absPath := cl!"/mnt/a/b/c/foo" },
     fun f => { f with name := cl!"x", relPath := cl!"x", absPath := cl!"/mnt/x" }]
  | _ => []

def actionVars : Action → List (File → File)
  | .printFormatted es | .filePrintFormatted _ es =>
    es.flatMap fun e => match e with
      | .field fl => fieldVars fl
      | _ => []
  | _ => []

def exprVars (now : Nat) : Expr → List (File → File)
  | .test t => testVars now t
  | .action a => actionVars a
  | .prec e | .not e => exprVars now e
  | .and a b | .or a b | .list a b => exprVars now a ++ exprVars now b
  | _ => []

/-- Pseudo-random combinations of the variations (linear congruential generator, fixed seed). -/
def combos (vars : List (File → File)) (base : File) (count : Nat) : List File :=
  let rec go : Nat → Nat → List File → List File
    | 0, _, acc => acc
    | k + 1, seed, acc =>
      let (f, seed') := vars.foldl (fun (st : File × Nat) v =>
        let s := (st.2 * 6364136223846793005 + 1442695040888963407) % 2 ^ 64
        if (s / 2 ^ 33) % 3 = 0 then (v st.1, s) else (st.1, s)) (base, seed)
      go k seed' (f :: acc)
  go count 88172645463325252 []

def directedFiles (now : Nat) (e : Expr) : List File :=
  let b := baseFile now
  let vars := exprVars now e
  b :: { b with empty := true, readable := false, writable := false, executable := true } :: vars.map (· b) ++ combos vars b 8

def showOutcome : Outcome → String
  | .done t out => s!"done {t} {out.length} outputs " ++ String.join (out.map fun o =>
      (match o.dest with | .stdout => "[stdout " | .file n => "[file " ++ String.ofList n ++ " ") ++ Sx.hexOfText o.bytes ++
      (match o.term with | some c => s!" t{c.toNat}]" | none => " t-]"))
  | .stopped out => s!"stopped {out.length} outputs"
  | .undefined => "undefined"

def showFile (f : File) : String :=
  s!"name={Sx.hexOfText f.name} rel={Sx.hexOfText f.relPath} size={f.size} blocks={f.blocks} mode={f.mode} uid={f.uid} gid={f.gid} ino={f.ino} nlink={f.nlink} at={f.atime} ct={f.ctime} mt={f.mtime} sc={f.stripeCount} mc={f.mirrorCount} pools={f.pools.length} xattrs={f.xattrs.length} e={f.empty} r={f.readable} w={f.writable} x={f.executable}"

/-- C02 on the implementation's program: for every directed file on which the tree has a meaning,
    the emitted policy gives find's truth value, outputs in order and stop request. -/
def checkC02 (req : List String) (obs : String) : Option String :=
  match treeOf req obs, decodeCompile obs with
  | some e, .ok t0 t1 m0 ((text, _) :: _) =>
    if t0 ≠ t1 then none else     -- the clock moved during this compile: time tests may embed different readings
    match readProgram text, decodeIoMap m0 with
    | some p, some io =>
      let now := t0
      let target := if !e.hasAction then Expr.and e (.action .defaultPrint) else e
      let files := directedFiles now target
      files.findSome? fun f =>
        match Spec.evalFind rtConcrete now target f with
        | .undefined => none
        | want =>
          match Scheme.runPolicy rtConcrete f io p.bindings p.body with
          | .outcome got => if got = want then none else
              some ("policy-differs-from-find file{" ++ showFile f ++ "} find{" ++ showOutcome want ++ "} policy{" ++ showOutcome got ++ "}")
          | .failed why => some ("policy-fails-at-run-time file{" ++ showFile f ++ "} " ++ why)
    | none, _ => some "program-does-not-read-back"
    | _, none => some "unreadable-destination-table"
  | _, .panic stg => some ("panic " ++ stg)
  | _, _ => none

end FV

namespace FV

/-- Correspondence of the structured generator: the implementation's program, read back, is the
    structured model's program for the same tree (bindings, body, destination table). -/
def structDiffC02 (req : List String) (obs : String) : Option String :=
  match treeOf req obs, decodeCompile obs with
  | some e, .ok t0 t1 m0 ((text, _) :: _) =>
    if t0 ≠ t1 then none else
    match readProgram text, decodeIoMap m0, compileS (fun _ => t0) e with
    | some p, some io, .ok ps =>
      if !(p.bindings == ps.bindings) then some "structured-model: bindings differ"
      else if !(p.body == ps.body) then some "structured-model: policy body differs"
      else if ioMapStr io ≠ ioMapStr ps.ioMap then some "structured-model: destination table differs"
      else none
    | none, _, .ok _ => some "structured-model: implementation program does not read back"
    | _, _, _ => some "structured-model: model does not compile what the implementation compiled"
  | some e, .err _ _ =>
    match compileS (fun _ => 0) e with
    | .ok _ => some "structured-model: model compiles what the implementation refused"
    | _ => none
  | _, _ => none

end FV

namespace FV
open Spec (File Rt Outcome Output Dest)

def outcomeOutputs : Outcome → Option (List Output × Bool)
  | .done _ out => some (out, false)
  | .stopped out => some (out, true)
  | .undefined => none

/-- C09 on the implementation's program, semantically: executed on directed files, the policy
    produces exactly the outputs of `( expression ) -a print` when the tree has no action, and
    exactly the outputs of the written actions otherwise. -/
def checkC09Sem (req : List String) (obs : String) : Option String :=
  match treeOf req obs, decodeCompile obs with
  | some e, .ok t0 t1 m0 ((text, _) :: _) =>
    if t0 ≠ t1 then none else
    match readProgram text, decodeIoMap m0 with
    | some p, some io =>
      let now := t0
      let expectTree := if !e.hasAction then Expr.and (.prec e) (.action .print) else e
      let files := directedFiles now e
      files.findSome? fun f =>
        match outcomeOutputs (Spec.evalFind rtConcrete now expectTree f) with
        | none => none
        | some want =>
          match Scheme.runPolicy rtConcrete f io p.bindings p.body with
          | .outcome got =>
            let extra : Bool := match outcomeOutputs got with
              | some (outs, _) => !(outs.foldl (fun (rem : Option (List Output)) o =>
                  match rem with
                  | some l => if l.any (· = o) then some (l.erase o) else none
                  | none => none) (some want.1)).isSome
              | none => true
            -- with an action in the tree the property only forbids ADDED output; dropped output is C02's business
            if outcomeOutputs got = some want || (e.hasAction && !extra) then none else
              some ((if e.hasAction then "outputs-differ-from-the-written-actions" else "implicit-print-wrong") ++
                " file{" ++ showFile f ++ "} want{" ++ showOutcome (Spec.evalFind rtConcrete now expectTree f) ++ "} policy{" ++ showOutcome got ++ "}")
          | .failed why => some ("policy-fails-at-run-time file{" ++ showFile f ++ "} " ++ why)
    | none, _ => some "program-does-not-read-back"
    | _, none => some "unreadable-destination-table"
  | _, .panic stg => some ("panic " ++ stg)
  | _, _ => none

end FV
