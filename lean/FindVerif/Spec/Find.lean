import FindVerif.Model.Ast
/-
  What a find expression means for one file, by find's rules as the property states them:
  short-circuit AND/OR, negation, ',' treated as AND (as the project documents), each test with
  its N, +N or -N comparison, unit rounding and field, each action writing what it names and yielding
  true, -quit stopping the scan.  Independent of the code generator and of the Scheme runtime
  model: nothing here mentions Scheme.
-/
namespace FV
namespace Spec

/-- The attributes of a file the LiPE scanner exposes to a policy. -/
structure File where
  name : Text
  relPath : Text
  absPath : Text
  mountPath : Text
  size : Nat
  blocks : Nat
  mode : Nat
  uid : Nat
  gid : Nat
  ino : Nat
  nlink : Nat
  atime : Nat
  ctime : Nat
  mtime : Nat
  projid : Nat
  fid : Text
  user : Text
  group : Text
  pools : List Text
  xattrs : List (Text × Text)
  stripeCount : Nat
  stripeSize : Nat
  mirrorCount : Nat
  empty : Bool
  readable : Bool
  writable : Bool
  executable : Bool
  deriving Repr, Inhabited

/-- Functions of the runtime whose results are the runtime's business (glob matching,
    case folding, time and float formatting, dirname, type letter): opaque but deterministic,
    the same on both sides of the equivalence. -/
structure Rt where
  fnmatch : Bool → Text → Text → Bool
  streqCi : Text → Text → Bool
  xattrGlob : Text → Text → List (Text × Text) → Bool
  strftime : Char → Nat → Text
  fmtFloat : Nat → Nat → Text
  dirname : Text → Text
  typeChar : Nat → Text

inductive Dest where
  | stdout
  | file (name : Text)
  deriving Repr, DecidableEq, Inhabited

/-- One output: where it goes, its bytes, its terminator. -/
structure Output where
  dest : Dest
  bytes : Text
  term : Option Char
  deriving Repr, DecidableEq, Inhabited

/-- What evaluating an expression on a file does. -/
inductive Outcome where
  | done (truth : Bool) (out : List Output)
  | stopped (out : List Output)          -- -quit was reached: the scan is asked to stop
  | undefined                            -- the expression has no meaning on this file / is unsupported
  deriving Repr, DecidableEq, Inhabited

def cmp (c : Comparison Nat) (x : Nat) : Bool :=
  match c with
  | .gt n => decide (x > n)
  | .lt n => decide (x < n)
  | .eq n => decide (x = n)

def cmpInt (c : Comparison Nat) (x : Int) : Bool :=
  match c with
  | .gt n => decide (x > (n : Int))
  | .lt n => decide (x < (n : Int))
  | .eq n => decide (x = (n : Int))

def sizeUnit : Size → Nat
  | .byte _ => 1 | .word _ => 2 | .block _ => 512 | .kilo _ => 2 ^ 10
  | .mega _ => 2 ^ 20 | .giga _ => 2 ^ 30 | .tera _ => 2 ^ 40

def sizeCount : Size → Nat
  | .byte n | .word n | .block n | .kilo n | .mega n | .giga n | .tera n => n

/-- `-size`: the file size in units, rounded UP, against the count. -/
def sizeHolds (c : Comparison Size) (size : Nat) : Bool :=
  let u := sizeUnit c.val
  cmp (c.map sizeCount) ((size + u - 1) / u)

def timeUnit : TimeSpec → Nat
  | .second _ => 1 | .minute _ => 60 | .hour _ => 3600 | .day _ => 86400

def timeCount : TimeSpec → Nat
  | .second n | .minute n | .hour n | .day n => n

/-- `-atime` and friends: the age in whole units (fraction dropped) against the count. -/
def timeHolds (c : Comparison TimeSpec) (now t : Nat) : Bool :=
  cmpInt (c.map timeCount) (Int.tdiv ((now : Int) - (t : Int)) (timeUnit c.val))

def typeCode : FileType → Nat
  | .pipe => 0o010000 | .character => 0o020000 | .directory => 0o040000 | .block => 0o060000
  | .file => 0o100000 | .link => 0o120000 | .socket => 0o140000

def typeHolds (l : List FileType) (mode : Nat) : Bool := l.any fun tp => mode &&& 0o170000 == typeCode tp

def permHolds (p : PermCheck) (mode : Nat) : Bool :=
  match p with
  | .equal m => mode &&& 0o7777 == m
  | .atLeast m => mode &&& m == m
  | .any m => !(mode &&& m == 0)

def hasGlob (s : Text) : Bool := s.any fun c => c = '?' || c = '*' || c = '['

/-- Name tests: glob patterns go to the runtime's fnmatch, literals are compared for equality. -/
def nameHolds (rt : Rt) (ci : Bool) (pat cand : Text) : Bool :=
  if hasGlob pat then rt.fnmatch ci pat cand
  else if ci then rt.streqCi pat cand else decide (pat = cand)

def xattrLookup (xs : List (Text × Text)) (k : Text) : Option Text :=
  match xs.find? (fun kv => kv.1 = k) with
  | some kv => some kv.2
  | none => none

def xattrSpecial (s : Text) : Bool := s.any fun c => c = '*' || c = '?' || c = '[' || c = '\''

/-- Truth of a test; `none` for the tests the target does not support. -/
def testHolds (rt : Rt) (now : Nat) (t : Test) (f : File) : Option Bool :=
  match t with
  | .true_ => some true
  | .false_ => some false
  | .empty => some f.empty
  | .executable => some f.executable
  | .readable => some f.readable
  | .writable => some f.writable
  | .accessTime c => some (timeHolds c now f.atime)
  | .changeTime c => some (timeHolds c now f.ctime)
  | .modifyTime c => some (timeHolds c now f.mtime)
  | .groupId c => some (cmp c f.gid)
  | .userId c => some (cmp c f.uid)
  | .inodeNumber c => some (cmp c f.ino)
  | .links c => some (cmp c f.nlink)
  | .mirrorCount c => some (cmp c f.mirrorCount)
  | .stripeCount c => some (cmp c f.stripeCount)
  | .size c => some (sizeHolds c f.size)
  | .type l => some (typeHolds l f.mode)
  | .perm p => some (permHolds p f.mode)
  | .name s => some (nameHolds rt false s f.name)
  | .insensitiveName s => some (nameHolds rt true s f.name)
  | .path s => some (nameHolds rt false s f.relPath)
  | .insensitivePath s => some (nameHolds rt true s f.relPath)
  | .pool s => some (f.pools.any (· = s))
  | .xattr k => some (f.xattrs.any (·.1 = k))
  | .xattrMatch k v =>
    if xattrSpecial k || xattrSpecial v then some (rt.xattrGlob k v f.xattrs)
    else some (xattrLookup f.xattrs k == some v)
  | _ => none

def natToBase (b : Nat) (n : Nat) : Text :=
  let rec go : Nat → Nat → Text → Text
    | 0, _, acc => acc
    | fuel + 1, n, acc =>
      let d := Char.ofNat ('0'.toNat + n % b)
      if n / b = 0 then d :: acc else go fuel (n / b) (d :: acc)
  go (n + 1) n []

/-- What a `-printf` directive prints; `none` = unsupported, or no meaning on this file
    (`%S` of an empty file). -/
def fieldText (rt : Rt) (fl : FormatField) (f : File) : Option Text :=
  match fl with
  | .percent => some (cl!"%")
  | .access => some (natToDec f.atime)
  | .change => some (natToDec f.ctime)
  | .modify => some (natToDec f.mtime)
  | .accessFormatted c => some (if c = '@' then natToDec f.atime else rt.strftime c f.atime)
  | .changeFormatted c => some (if c = '@' then natToDec f.ctime else rt.strftime c f.ctime)
  | .modifyFormatted c => some (if c = '@' then natToDec f.mtime else rt.strftime c f.mtime)
  | .diskSizeBlocks => some (natToDec f.blocks)
  | .diskSizeKilos => some (natToDec ((f.blocks + 1) / 2))
  | .diskSizeBytes => some (natToDec f.size)
  | .basename => some f.name
  | .group => some f.group
  | .groupId => some (natToDec f.gid)
  | .user => some f.user
  | .userId => some (natToDec f.uid)
  | .parents => some (rt.dirname f.relPath)
  | .startingPoint => some f.mountPath
  | .inodeDecimal => some (natToDec f.ino)
  | .permissionsOctal => some (natToBase 8 (f.mode &&& 0o7777))
  | .hardlinks => some (natToDec f.nlink)
  | .name => some f.absPath
  | .nameWithoutStartingPoint => some f.relPath
  | .sparseness => if f.size = 0 then none else some (rt.fmtFloat (512 * f.blocks) f.size)
  | .type => some (rt.typeChar f.mode)
  | .fileId => some f.fid
  | .projectId => some (natToDec f.projid)
  | .mirrorCount => some (natToDec f.mirrorCount)
  | .stripeCount => some (natToDec f.stripeCount)
  | .stripeSize => some (natToDec f.stripeSize)
  | .xattr a => some ((xattrLookup f.xattrs a).getD [])
  | _ => none

def specialText : FormatSpecial → Option Text
  | .alarm => some ['\x07'] | .backspace => some ['\x08'] | .form => some ['\x0c']
  | .newline => some ['\n'] | .carriageReturn => some ['\r'] | .tabHorizontal => some ['\t']
  | .tabVertical => some ['\x0b'] | .null => some ['\x00'] | .backslash => some ['\\']
  | .ascii v => some [Char.ofNat v]
  | .clear => none

def elementText (rt : Rt) (f : File) : FormatElement → Option Text
  | .literal s => some s
  | .field fl => fieldText rt fl f
  | .special s => specialText s

/-- The bytes a format prints for a file. -/
def formatText (rt : Rt) (f : File) : List FormatElement → Option Text
  | [] => some []
  | e :: es =>
    match elementText rt f e, formatText rt f es with
    | some a, some b => some (a ++ b)
    | _, _ => none

/-- What an action writes. `none` = unsupported / undefined on this file; `-quit` is handled by
    the caller. -/
def actionOutput (rt : Rt) (a : Action) (f : File) : Option Output :=
  match a with
  | .print | .defaultPrint => some ⟨.stdout, f.relPath, some '\n'⟩
  | .printNull => some ⟨.stdout, f.relPath, some '\x00'⟩
  | .printFid => some ⟨.stdout, f.fid, some '\n'⟩
  | .filePrint d => some ⟨.file d, f.relPath, some '\n'⟩
  | .filePrintNull d => some ⟨.file d, f.relPath, some '\x00'⟩
  | .printFormatted es => (formatText rt f es).map fun b => ⟨.stdout, b, none⟩
  | .filePrintFormatted d es => (formatText rt f es).map fun b => ⟨.file d, b, none⟩
  | _ => none

def Outcome.prepend (o : List Output) : Outcome → Outcome
  | .done t out => .done t (o ++ out)
  | .stopped out => .stopped (o ++ out)
  | .undefined => .undefined

def Outcome.negate : Outcome → Outcome
  | .done b out => .done (!b) out
  | r => r

/-- AND: the second operand is evaluated only if the first is true. -/
def Outcome.andThen (first second : Outcome) : Outcome :=
  match first with
  | .done true out => second.prepend out
  | r => r

/-- OR: the second operand is evaluated only if the first is false. -/
def Outcome.orElse (first second : Outcome) : Outcome :=
  match first with
  | .done false out => second.prepend out
  | r => r

/-- find's evaluation of an expression tree on one file. -/
def evalFind (rt : Rt) (now : Nat) : Expr → File → Outcome
  | .test t, f => match testHolds rt now t f with
    | some b => .done b []
    | none => .undefined
  | .action .quit, _ => .stopped []
  | .action a, f => match actionOutput rt a f with
    | some o => .done true [o]
    | none => .undefined
  | .not e, f => (evalFind rt now e f).negate
  | .and a b, f => (evalFind rt now a f).andThen (evalFind rt now b f)
  | .list a b, f => (evalFind rt now a f).andThen (evalFind rt now b f)
  | .or a b, f => (evalFind rt now a f).orElse (evalFind rt now b f)
  | .prec e, f => evalFind rt now e f
  | .global _, _ => .undefined
  | .positional _, _ => .undefined

end Spec
end FV
