import FindVerif.Model.Ast
/-
  Which constructs the LiPE target can express (from the crate's documentation and comments):
  13 tests, 3 actions, 7 format directives, the `\c` escape and the positional option cannot.
-/
namespace FV
namespace Spec

/-- Constructor name of an unsupported test, `none` if the test is supported. -/
def unsupportedTest : Test → Option String
  | .accessNewer _ => some "AccessNewer" | .changeNewer _ => some "ChangeNewer" | .fsType _ => some "FsType"
  | .group _ => some "Group" | .insensitiveLinkName _ => some "InsensitiveLinkName"
  | .insensitiveRegex _ => some "InsensitiveRegex" | .linkName _ => some "LinkName"
  | .modifyNewer _ => some "ModifyNewer" | .noGroup => some "NoGroup" | .noUser => some "NoUser"
  | .regex _ => some "Regex" | .samefile _ => some "Samefile" | .user _ => some "User"
  | _ => none

def unsupportedField : FormatField → Option String
  | .depth => some "Depth" | .deviceNumber => some "DeviceNumber" | .fsType => some "FsType"
  | .symbolicTarget => some "SymbolicTarget" | .permissionsSymbolic => some "PermissionsSymbolic"
  | .typeSymlink => some "TypeSymlink" | .securityContext => some "SecurityContext"
  | _ => none

def unsupportedElement : FormatElement → Option String
  | .field f => unsupportedField f
  | .special .clear => some "Clear"
  | _ => none

def unsupportedFormat (fmt : List FormatElement) : Option String := fmt.findSome? unsupportedElement

/-- (kind, constructor) of the first unsupported construct of an action. -/
def unsupportedAction : Action → Option (String × String)
  | .fileList _ => some ("UnsupportedAction", "FileList")
  | .list => some ("UnsupportedAction", "List")
  | .prune => some ("UnsupportedAction", "Prune")
  | .printFormatted fmt => (unsupportedFormat fmt).map fun n => ("UnsupportedFormat", n)
  | .filePrintFormatted _ fmt => (unsupportedFormat fmt).map fun n => ("UnsupportedFormat", n)
  | _ => none

/-- The first unsupported construct in left-to-right order, as (error kind, constructor name). -/
def firstUnsupported : Expr → Option (String × String)
  | .test t => (unsupportedTest t).map fun n => ("UnsupportedTest", n)
  | .action a => unsupportedAction a
  | .positional _ => some ("UnsupportedOption", "XDev")
  | .global _ => none
  | .prec e | .not e => firstUnsupported e
  | .and a b | .or a b | .list a b =>
    match firstUnsupported a with
    | some x => some x
    | none => firstUnsupported b

/-- The expression contains, at some depth, a construct the target cannot express. -/
def hasUnsupported (e : Expr) : Bool := (firstUnsupported e).isSome

/-- No explicit-precedence and no option node (the shapes the parser returns). -/
def plainB : Expr → Bool
  | .prec _ | .global _ => false
  | .not e => plainB e
  | .and a b | .or a b | .list a b => plainB a && plainB b
  | _ => true

def isInfixT (a b : Text) : Bool :=
  (List.range (b.length + 1)).any fun k => isPrefix a (b.drop k)

end Spec
end FV
