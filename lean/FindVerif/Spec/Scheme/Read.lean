import FindVerif.Model.Text
/-
  A reader for the lexical subset of Guile Scheme that the generator emits or could emit under
  mutation: whitespace, `;` comments, parentheses, `#t`/`#f`, `#\xHH` and `#\c` characters,
  `#o…` and decimal integers, symbols, and strings with the escapes
  `\\ \" \a \b \f \n \r \t \v \0 \xHH;` (any other backslash sequence is a read error, as in
  Guile).  Independent of the model.
-/
namespace FV
namespace Scheme

inductive SExp where
  | sym (s : Text)
  | str (s : Text)
  | num (n : Nat)
  | chr (c : Nat)
  | bool (b : Bool)
  | list (items : List SExp)
  deriving Repr, Inhabited, BEq

def isWs (c : Char) : Bool := c = ' ' || c = '\n' || c = '\t' || c = '\r' || c = '\x0c'

/-- Characters that end a symbol/number/`#` token. -/
def isDelim (c : Char) : Bool := isWs c || c = '(' || c = ')' || c = '"' || c = ';'

def hexVal? (c : Char) : Option Nat :=
  if '0' ≤ c && c ≤ '9' then some (c.toNat - '0'.toNat)
  else if 'a' ≤ c && c ≤ 'f' then some (c.toNat - 'a'.toNat + 10)
  else if 'A' ≤ c && c ≤ 'F' then some (c.toNat - 'A'.toNat + 10)
  else none

def hexNum? : List Char → Option Nat
  | [] => none
  | cs => cs.foldl (fun acc c => match acc, hexVal? c with
      | some a, some v => some (a * 16 + v)
      | _, _ => none) (some 0)

/-- Read the inside of a string literal (after the opening quote) up to the closing quote. -/
def readStr : Nat → List Char → List Char → Option (Text × List Char)
  | 0, _, _ => none
  | _ + 1, _, [] => none
  | fuel + 1, acc, c :: cs =>
    if c = '"' then some (acc.reverse, cs)
    else if c = '\\' then
      match cs with
      | [] => none
      | e :: rest =>
        if e = '\\' then readStr fuel ('\\' :: acc) rest
        else if e = '"' then readStr fuel ('"' :: acc) rest
        else if e = 'a' then readStr fuel ('\x07' :: acc) rest
        else if e = 'b' then readStr fuel ('\x08' :: acc) rest
        else if e = 'f' then readStr fuel ('\x0c' :: acc) rest
        else if e = 'n' then readStr fuel ('\n' :: acc) rest
        else if e = 'r' then readStr fuel ('\r' :: acc) rest
        else if e = 't' then readStr fuel ('\t' :: acc) rest
        else if e = 'v' then readStr fuel ('\x0b' :: acc) rest
        else if e = '0' then readStr fuel ('\x00' :: acc) rest
        else if e = 'x' then
          let digits := rest.takeWhile (· ≠ ';')
          match rest.dropWhile (· ≠ ';'), hexNum? digits with
          | _ :: rest', some v => readStr fuel (Char.ofNat v :: acc) rest'
          | _, _ => none
        else none
    else readStr fuel (c :: acc) cs

/-- Classify a bare token (no delimiters inside). -/
def classify (tok : Text) : Option SExp :=
  match tok with
  | [] => none
  | ['#', 't'] => some (.bool true)
  | ['#', 'f'] => some (.bool false)
  | '#' :: 'o' :: ds => if !ds.isEmpty && ds.all isOct then some (.num (octVal ds)) else none
  | '#' :: '\\' :: 'x' :: ds =>
    if ds.isEmpty then some (.chr 'x'.toNat)
    else match hexNum? ds with
      | some v => some (.chr v)
      | none => none
  | ['#', '\\', c] => some (.chr c.toNat)
  | '#' :: _ => none
  | cs => if cs.all isDigit then some (.num (decVal cs)) else some (.sym cs)

def skipComment : List Char → List Char
  | [] => []
  | c :: cs => if c = '\n' then cs else skipComment cs

/-- Take a bare token: up to the next delimiter; after `#\` the next character is taken
    literally even when it is a delimiter. -/
def takeTok (cs : List Char) : Text × List Char :=
  match cs with
  | '#' :: '\\' :: c :: rest =>
    let more := rest.takeWhile (fun d => !isDelim d)
    ('#' :: '\\' :: c :: more, rest.dropWhile (fun d => !isDelim d))
  | _ => (cs.takeWhile (fun d => !isDelim d), cs.dropWhile (fun d => !isDelim d))

mutual
/-- Read one datum. -/
def read1 : Nat → List Char → Option (SExp × List Char)
  | 0, _ => none
  | _ + 1, [] => none
  | fuel + 1, c :: cs =>
    if isWs c then read1 fuel cs
    else if c = ';' then read1 fuel (skipComment cs)
    else if c = '(' then
      match readSeq fuel cs with
      | some (items, rest) => some (.list items, rest)
      | none => none
    else if c = ')' then none
    else if c = '"' then
      match readStr (cs.length + 1) [] cs with
      | some (s, rest) => some (.str s, rest)
      | none => none
    else
      let (tok, rest) := takeTok (c :: cs)
      match classify tok with
      | some x => some (x, rest)
      | none => none
/-- Read data up to the closing parenthesis. -/
def readSeq : Nat → List Char → Option (List SExp × List Char)
  | 0, _ => none
  | _ + 1, [] => none
  | fuel + 1, c :: cs =>
    if isWs c then readSeq fuel cs
    else if c = ';' then readSeq fuel (skipComment cs)
    else if c = ')' then some ([], cs)
    else
      match read1 fuel (c :: cs) with
      | some (x, rest) =>
        match readSeq fuel rest with
        | some (xs, rest') => some (x :: xs, rest')
        | none => none
      | none => none
end

def skipBlank : Nat → List Char → List Char
  | 0, cs => cs
  | _ + 1, [] => []
  | fuel + 1, c :: cs =>
    if isWs c then skipBlank fuel cs
    else if c = ';' then skipBlank fuel (skipComment cs)
    else c :: cs

/-- Read all top-level forms. -/
def readAllAux : Nat → List Char → Option (List SExp)
  | 0, _ => none
  | fuel + 1, cs =>
    match skipBlank (cs.length + 1) cs with
    | [] => some []
    | rest =>
      match read1 (2 * rest.length + 2) rest with
      | some (x, rest') =>
        match readAllAux fuel rest' with
        | some xs => some (x :: xs)
        | none => none
      | none => none

def readAll (cs : List Char) : Option (List SExp) := readAllAux (cs.length + 1) cs

end Scheme
end FV
