import FindVerif.Spec.Scheme.Analysis
import FindVerif.Spec.Find
/-
  A model of the Guile + LiPE runtime for the subset of Scheme the generator emits (or could emit
  under mutation): a generic evaluator over read-back S-expressions, not a recogniser of expected
  shapes.  ASSUMPTIONS about software outside the repository (the `(lipe)` / `(lipe find)` modules
  and Guile are not in the sandbox) are exactly the clauses of `applyPrim` below; they are part of
  the trusted base of C02.
-/
namespace FV
namespace Scheme
open Spec (File Rt Dest Output Outcome)

inductive Val where
  | int (i : Int)
  | ratio (n d : Nat)
  | bool (b : Bool)
  | str (s : Text)
  | chr (c : Nat)
  | unspec
  | strs (xs : List Text)
  | port (d : Dest)
  | mutex (id : Nat)
  | tm (t : Nat)
  | builtin (name : Text)
  | printer (d : Dest) (mutex : Nat) (term : Option Char)
  | clo (params : List Text) (body : List SExp) (depth : Nat)
  deriving Repr, Inhabited

/-- What reaches an output port. -/
inductive Event where
  | record (d : Dest) (bytes : Text) (term : Option Char)   -- one call of a `make-printer` procedure / runtime printer
  | raw (d : Dest) (bytes : Text)                           -- one `display`
  deriving Repr, DecidableEq, Inhabited

/-- Result of evaluating a form: a value, a request to stop the scan, or a run-time error;
    with the output events produced so far. -/
inductive R (α : Type) where
  | ok (a : α) (ev : List Event)
  | stop (ev : List Event)
  | fail (why : String)
  deriving Repr, Inhabited

def R.bind {α β : Type} (r : R α) (k : α → R β) : R β :=
  match r with
  | .ok a ev =>
    match k a with
    | .ok b ev' => .ok b (ev ++ ev')
    | .stop ev' => .stop (ev ++ ev')
    | .fail w => .fail w
  | .stop ev => .stop ev
  | .fail w => .fail w

def Val.truthy : Val → Bool
  | .bool false => false
  | _ => true

structure Ctx where
  rt : Rt
  file : File
  env : List (Text × Val)

/-- Innermost (latest) binding wins. -/
def lookup : List (Text × Val) → Text → Option Val
  | [], _ => none
  | (n, v) :: rest, x =>
    match lookup rest x with
    | some w => some w
    | none => if n = x then some v else none

inductive Prim where
  | size | blocks | mode | uid | gid | ino | nlink | atime | ctime | mtime | projid
  | name | user | group | fileFid | absolutePath | relativePath | mountPath
  | stripeCount | stripeSize | mirrorCount | pools | type | empty | readable | writable | executable
  | gt | lt | eq | logand | quotient | sub | add | mul | div | roundUp
  | member | equalP | not | xattrP | xattrRef | xattrMatchP | string | format | strftime | localtime | typeChar
  | streq | streqCi | fnmatch | fnmatchCi | callWithName | callWithRelativePath
  | printRelativePath | printFileFid | scanBreak | makePrinter | makeMutex | currentOutputPort | openFile
  | display | dirname | closePort
  deriving Repr, DecidableEq, Inhabited

def primTable : List (Text × Prim) := [
  (cl!"size", .size), (cl!"blocks", .blocks), (cl!"mode", .mode), (cl!"uid", .uid), (cl!"gid", .gid),
  (cl!"ino", .ino), (cl!"nlink", .nlink), (cl!"atime", .atime), (cl!"ctime", .ctime), (cl!"mtime", .mtime),
  (cl!"projid", .projid), (cl!"name", .name), (cl!"user", .user), (cl!"group", .group), (cl!"file-fid", .fileFid),
  (cl!"absolute-path", .absolutePath), (cl!"relative-path", .relativePath),
  (cl!"lipe-scan-client-mount-path", .mountPath), (cl!"lov-stripe-count", .stripeCount),
  (cl!"lov-stripe-size", .stripeSize), (cl!"lov-mirror-count", .mirrorCount), (cl!"lov-pools", .pools),
  (cl!"type", .type), (cl!"empty", .empty), (cl!"readable", .readable), (cl!"writable", .writable),
  (cl!"executable", .executable), (cl!">", .gt), (cl!"<", .lt), (cl!"=", .eq), (cl!"logand", .logand),
  (cl!"quotient", .quotient), (cl!"-", .sub), (cl!"+", .add), (cl!"*", .mul), (cl!"/", .div),
  (cl!"round-up-power-of-2", .roundUp), (cl!"member", .member), (cl!"equal?", .equalP), (cl!"not", .not),
  (cl!"xattr?", .xattrP), (cl!"xattr-ref-string", .xattrRef), (cl!"xattr-match?", .xattrMatchP),
  (cl!"string", .string), (cl!"format", .format), (cl!"strftime", .strftime), (cl!"localtime", .localtime),
  (cl!"type->char", .typeChar), (cl!"streq?", .streq), (cl!"streq-ci?", .streqCi), (cl!"fnmatch?", .fnmatch),
  (cl!"fnmatch-ci?", .fnmatchCi), (cl!"call-with-name", .callWithName),
  (cl!"call-with-relative-path", .callWithRelativePath), (cl!"print-relative-path", .printRelativePath),
  (cl!"print-file-fid", .printFileFid), (cl!"lipe-scan-break", .scanBreak), (cl!"make-printer", .makePrinter),
  (cl!"make-mutex", .makeMutex), (cl!"current-output-port", .currentOutputPort), (cl!"open-file", .openFile),
  (cl!"display", .display), (cl!"dirname", .dirname), (cl!"close-port", .closePort)]

def primOf (s : Text) : Option Prim :=
  match primTable.find? (fun kv => kv.1 = s) with
  | some kv => some kv.2
  | none => none

def intToDec (i : Int) : Text :=
  match i with
  | .ofNat n => natToDec n
  | .negSucc n => '-' :: natToDec (n + 1)

/-- What `display` / `~a` print for a value. -/
def displayText : Val → Option Text
  | .str s => some s
  | .int i => some (intToDec i)
  | .chr c => some [Char.ofNat c]
  | .bool true => some (cl!"#t")
  | .bool false => some (cl!"#f")
  | _ => none

def directive (rt : Rt) (d : Char) (a : Val) : Option Text :=
  if d = 'a' then displayText a
  else if d = 'd' then
    match a with
    | .int i => some (intToDec i)
    | _ => none
  else if d = 'o' then
    match a with
    | .int (.ofNat n) => some (Spec.natToBase 8 n)
    | _ => none
  else if d = 'f' then
    match a with
    | .ratio n dd => some (rt.fmtFloat n dd)
    | .int (.ofNat n) => some (rt.fmtFloat n 1)
    | _ => none
  else none

/-- `(format #f template args…)`: `~a ~d ~o ~f` consume one argument, `~~` prints a tilde; an
    unknown directive, a missing or a left-over argument is an error. -/
def fmtGo (rt : Rt) : Text → List Val → Option Text
  | [], [] => some []
  | [], _ :: _ => none
  | c :: r, args =>
    if c = '~' then
      match r with
      | [] => none
      | d :: r' =>
        if d = '~' then (fmtGo rt r' args).map ('~' :: ·)
        else
          match args with
          | [] => none
          | a :: as =>
            match directive rt d a, fmtGo rt r' as with
            | some t, some rest => some (t ++ rest)
            | _, _ => none
    else (fmtGo rt r args).map (c :: ·)

def charsOf : List Val → Option Text
  | [] => some []
  | .chr c :: r => (charsOf r).map (Char.ofNat c :: ·)
  | _ => none

def valEqual : Val → Val → Bool
  | .str a, .str b => a == b
  | .int a, .int b => a == b
  | .bool a, .bool b => a == b
  | .chr a, .chr b => a == b
  | _, _ => false

/-- The primitives.  `apv` applies a procedure value (needed by the `call-with-…` procedures). -/
def applyPrim (cx : Ctx) (apv : Val → List Val → R Val) (p : Prim) (args : List Val) : R Val :=
  let f := cx.file
  let nat (n : Nat) : R Val := .ok (.int n) []
  let b (x : Bool) : R Val := .ok (.bool x) []
  let s (x : Text) : R Val := .ok (.str x) []
  match p, args with
  | .size, [] => nat f.size | .blocks, [] => nat f.blocks | .mode, [] => nat f.mode | .uid, [] => nat f.uid
  | .gid, [] => nat f.gid | .ino, [] => nat f.ino | .nlink, [] => nat f.nlink | .atime, [] => nat f.atime
  | .ctime, [] => nat f.ctime | .mtime, [] => nat f.mtime | .projid, [] => nat f.projid
  | .stripeCount, [] => nat f.stripeCount | .stripeSize, [] => nat f.stripeSize
  | .mirrorCount, [] => nat f.mirrorCount | .type, [] => nat f.mode
  | .name, [] => s f.name | .user, [] => s f.user | .group, [] => s f.group | .fileFid, [] => s f.fid
  | .absolutePath, [] => s f.absPath | .relativePath, [] => s f.relPath | .mountPath, [] => s f.mountPath
  | .pools, [] => .ok (.strs f.pools) []
  | .empty, [] => b f.empty | .readable, [] => b f.readable | .writable, [] => b f.writable
  | .executable, [] => b f.executable
  | .gt, [.int x, .int y] => b (decide (x > y))
  | .lt, [.int x, .int y] => b (decide (x < y))
  | .eq, [.int x, .int y] => b (decide (x = y))
  | .logand, [.int (.ofNat x), .int (.ofNat y)] => nat (x &&& y)
  | .quotient, [.int x, .int y] => if y = 0 then .fail "quotient: division by zero" else .ok (.int (Int.tdiv x y)) []
  | .sub, [.int x, .int y] => .ok (.int (x - y)) []
  | .add, [.int x, .int y] => .ok (.int (x + y)) []
  | .mul, [.int x, .int y] => .ok (.int (x * y)) []
  | .div, [.int (.ofNat x), .int (.ofNat y)] => if y = 0 then .fail "/: division by zero" else .ok (.ratio x y) []
  | .roundUp, [.int (.ofNat x), .int (.ofNat m)] =>
    if m = 0 then .fail "round-up-power-of-2: zero" else nat ((x + m - 1) / m * m)
  | .member, [.str x, .strs l] => if l.any (· = x) then .ok (.strs (l.dropWhile (· ≠ x))) [] else b false
  | .equalP, [x, y] => b (valEqual x y)
  | .not, [x] => b (!x.truthy)
  | .xattrP, [.str k] => b (f.xattrs.any (·.1 = k))
  | .xattrRef, [.str k] => match Spec.xattrLookup f.xattrs k with
    | some v => s v
    | none => b false
  | .xattrMatchP, [.str k, .str v] => b (cx.rt.xattrGlob k v f.xattrs)
  | .string, cs => match charsOf cs with
    | some t => s t
    | none => .fail "string: not characters"
  | .format, .bool false :: .str tmpl :: rest => match fmtGo cx.rt tmpl rest with
    | some t => s t
    | none => .fail "format: template and arguments do not agree"
  | .strftime, [.str ['%', c], .tm t] => s (cx.rt.strftime c t)
  | .localtime, [.int (.ofNat t)] => .ok (.tm t) []
  | .typeChar, [.int (.ofNat m)] => s (cx.rt.typeChar m)
  | .streq, [.str p, .str c] => b (decide (p = c))
  | .streqCi, [.str p, .str c] => b (cx.rt.streqCi p c)
  | .fnmatch, [.str p, .str c] => b (cx.rt.fnmatch false p c)
  | .fnmatchCi, [.str p, .str c] => b (cx.rt.fnmatch true p c)
  | .callWithName, [g] => apv g [.str f.name]
  | .callWithRelativePath, [g] => apv g [.str f.relPath]
  | .printRelativePath, [] => .ok .unspec [.record .stdout f.relPath (some '\n')]
  | .printFileFid, [] => .ok .unspec [.record .stdout f.fid (some '\n')]
  | .scanBreak, [.int _] => .stop []
  | .makePrinter, [.port d, .mutex m, .chr c] => .ok (.printer d m (some (Char.ofNat c))) []
  | .makePrinter, [.port d, .mutex m, .bool false] => .ok (.printer d m none) []
  | .makeMutex, [] => .ok (.mutex cx.env.length) []
  | .currentOutputPort, [] => .ok (.port .stdout) []
  | .openFile, [.str name, .str _] => .ok (.port (.file name)) []
  | .display, [v, .port d] => match displayText v with
    | some t => .ok .unspec [.raw d t]
    | none => .fail "display: unprintable"
  | .dirname, [.str x] => s (cx.rt.dirname x)
  | .closePort, [.port _] => .ok .unspec []
  | _, _ => .fail "wrong arguments to a runtime procedure"

def paramNames : List SExp → Option (List Text)
  | [] => some []
  | .sym s :: r => (paramNames r).map (s :: ·)
  | _ => none

/-- Variable reference: parameters, then `let*` bindings, then runtime procedures. -/
def varRef (cx : Ctx) (loc : List (Text × Val)) (x : Text) : Option Val :=
  match lookup loc x with
  | some v => some v
  | none =>
    match lookup cx.env x with
    | some v => some v
    | none => (primOf x).map fun _ => .builtin x

abbrev CloAp := Ctx → List Text → List SExp → Nat → List Val → R Val

/-- Procedure application as seen by a `call-with-…` runtime procedure: closures, printers and
    first-order runtime procedures. -/
def apvHO (ap : CloAp) (cx : Ctx) (g : Val) (xs : List Val) : R Val :=
  match g with
  | .clo ps body depth => ap cx ps body depth xs
  | .printer d _ term =>
    match xs with
    | [.str line] => .ok .unspec [.record d line term]
    | _ => .fail "printer: wrong arguments"
  | .builtin m =>
    match primOf m with
    | some q => applyPrim cx (fun _ _ => .fail "nested higher-order call") q xs
    | none => .fail "unbound"
  | _ => .fail "not a procedure"

/-- Apply a procedure value. -/
def applyVal (ap : CloAp) (cx : Ctx) (v : Val) (args : List Val) : R Val :=
  match v with
  | .clo ps body depth => ap cx ps body depth args
  | .printer d _ term =>
    match args with
    | [.str line] => .ok .unspec [.record d line term]
    | _ => .fail "printer: wrong arguments"
  | .builtin n =>
    match primOf n with
    | some p => applyPrim cx (apvHO ap cx) p args
    | none => .fail "unbound"
  | _ => .fail "not a procedure"

/-- `(lambda (p…) body…)`: a closure that sees the bindings made so far. -/
def mkLambda (cx : Ctx) : List SExp → R Val
  | .list ps :: body =>
    match paramNames ps with
    | some names => .ok (.clo names body cx.env.length) []
    | none => .fail "lambda: bad parameter list"
  | _ => .fail "lambda: bad form"

mutual
/-- Evaluate one form. -/
def eval (ap : CloAp) (cx : Ctx) (loc : List (Text × Val)) : SExp → R Val
  | .num n => .ok (.int n) []
  | .str s => .ok (.str s) []
  | .chr c => .ok (.chr c) []
  | .bool b => .ok (.bool b) []
  | .sym x =>
    match varRef cx loc x with
    | some v => .ok v []
    | none => .fail ("unbound variable " ++ String.ofList x)
  | .list [] => .fail "empty application"
  | .list (.sym f :: args) =>
    if f = cl!"and" then evalAnd ap cx loc args
    else if f = cl!"or" then evalOr ap cx loc args
    else if f = cl!"lambda" then mkLambda cx args
    else if f = cl!"with-mutex" then
      -- the mutex expression, then the body, in sequence (the lock itself is the subject of C16)
      if args.isEmpty then .fail "with-mutex: bad form" else evalSeq ap cx loc args
    else
      match varRef cx loc f with
      | some g => (evalArgs ap cx loc args).bind fun vs => applyVal ap cx g vs
      | none => .fail ("unbound variable " ++ String.ofList f)
  | .list (_ :: _) => .fail "application of a non-symbol head"
/-- Evaluate arguments left to right. -/
def evalArgs (ap : CloAp) (cx : Ctx) (loc : List (Text × Val)) : List SExp → R (List Val)
  | [] => .ok [] []
  | x :: xs => (eval ap cx loc x).bind fun v => (evalArgs ap cx loc xs).bind fun vs => .ok (v :: vs) []
/-- `(and e…)`: left to right, stops at the first false; value of the last form. -/
def evalAnd (ap : CloAp) (cx : Ctx) (loc : List (Text × Val)) : List SExp → R Val
  | [] => .ok (.bool true) []
  | [x] => eval ap cx loc x
  | x :: y :: r => (eval ap cx loc x).bind fun v => if v.truthy then evalAnd ap cx loc (y :: r) else .ok v []
/-- `(or e…)`: left to right, stops at the first true value. -/
def evalOr (ap : CloAp) (cx : Ctx) (loc : List (Text × Val)) : List SExp → R Val
  | [] => .ok (.bool false) []
  | [x] => eval ap cx loc x
  | x :: y :: r => (eval ap cx loc x).bind fun v => if v.truthy then .ok v [] else evalOr ap cx loc (y :: r)
/-- A body: forms in sequence, value of the last. -/
def evalSeq (ap : CloAp) (cx : Ctx) (loc : List (Text × Val)) : List SExp → R Val
  | [] => .ok .unspec []
  | [x] => eval ap cx loc x
  | x :: y :: r => (eval ap cx loc x).bind fun _ => evalSeq ap cx loc (y :: r)
end

/-- Closure application down to a nesting depth (the emitted program needs 2: a framed printer
    calls the frame procedure). -/
def apN : Nat → CloAp
  | 0 => fun _ _ _ _ _ => .fail "closure nesting too deep"
  | n + 1 => fun cx ps body depth args =>
    if ps.length = args.length then
      evalSeq (apN n) { cx with env := cx.env.take depth } (ps.zip args) body
    else .fail "wrong number of arguments"

def closureDepth : Nat := 4

/-- `let*`: evaluate the initialisers in order, each seeing the earlier bindings. -/
def evalBindings (rt : Rt) (file : File) : List (Text × SExp) → List (Text × Val) → Except String (List (Text × Val))
  | [], env => .ok env
  | (n, ini) :: rest, env =>
    match eval (apN closureDepth) { rt := rt, file := file, env := env } [] ini with
    | .ok v _ => evalBindings rt file rest (env ++ [(n, v)])
    | .stop _ => .error "stop request while initialising"
    | .fail w => .error w

/-- One frame: the tag selects the destination and terminator from the table. -/
def frameOut (io : Option (List (Nat × Target))) (payload : Text) (sep tag : Char) (rest : Option (List Output)) :
    Option (List Output) :=
  if sep.toNat = 0x1e then
    match io with
    | some table =>
      match table.find? (fun kv => kv.1 = tag.toNat), rest with
      | some (_, .stdout t), some outs => some (⟨.stdout, payload, t⟩ :: outs)
      | some (_, .file name t), some outs => some (⟨.file name, payload, t⟩ :: outs)
      | _, _ => none
    | none => none
  else none

/-- Events to outputs: a record is an output; in framed mode two consecutive displays on standard
    output — payload, then separator + tag — are one output to the tag's table entry. -/
def decode (io : Option (List (Nat × Target))) : List Event → Option (List Output)
  | [] => some []
  | .record d bytes t :: rest => (decode io rest).map (⟨d, bytes, t⟩ :: ·)
  | .raw .stdout payload :: .raw .stdout [sep, tag] :: rest => frameOut io payload sep tag (decode io rest)
  | _ => none

inductive Run where
  | outcome (o : Outcome)
  | failed (why : String)
  deriving Repr, Inhabited

/-- One call of the policy on one file. -/
def runPolicy (rt : Rt) (file : File) (io : Option (List (Nat × Target))) (bindings : List (Text × SExp)) (body : SExp) : Run :=
  match evalBindings rt file bindings [] with
  | .error w => .failed ("bindings: " ++ w)
  | .ok env =>
    match eval (apN closureDepth) { rt := rt, file := file, env := env } [] body with
    | .fail w => .failed w
    | .ok v ev =>
      match decode io ev with
      | some outs => .outcome (.done v.truthy outs)
      | none => .failed "output stream does not decode"
    | .stop ev =>
      match decode io ev with
      | some outs => .outcome (.stopped outs)
      | none => .failed "output stream does not decode"

end Scheme
end FV
