import FindVerif.Spec.Scheme.Read
/- Structural analyses on read-back programs: string leaves, skeletons, `let*` scope. -/
namespace FV
namespace Scheme

mutual
def strLeaves : SExp → List Text
  | .str s => [s]
  | .list items => strLeavesL items
  | _ => []
def strLeavesL : List SExp → List Text
  | [] => []
  | x :: xs => strLeaves x ++ strLeavesL xs
end

mutual
/-- The datum with every string literal replaced by the empty string. -/
def skeleton : SExp → SExp
  | .str _ => .str []
  | .list items => .list (skeletonL items)
  | x => x
def skeletonL : List SExp → List SExp
  | [] => []
  | x :: xs => skeleton x :: skeletonL xs
end

mutual
def symbols : SExp → List Text
  | .sym s => [s]
  | .list items => symbolsL items
  | _ => []
def symbolsL : List SExp → List Text
  | [] => []
  | x :: xs => symbols x ++ symbolsL xs
end

mutual
/-- All sub-lists (including the datum itself when it is a list), outermost first. -/
def sublists : SExp → List (List SExp)
  | .list items => items :: sublistsL items
  | _ => []
def sublistsL : List SExp → List (List SExp)
  | [] => []
  | x :: xs => sublists x ++ sublistsL xs
end

def isGenerated (s : Text) : Bool := isPrefix (cl!"%lf3:") s

/-- Number of `format` directives in a template, `none` if a `~` is followed by anything other
    than `a d o f ~` (the directives the generator uses) or ends the template. -/
def formatDirectives : Text → Option Nat
  | [] => some 0
  | c :: r =>
    if c = '~' then
      match r with
      | [] => none
      | d :: r' =>
        if d = '~' then formatDirectives r'
        else if d = 'a' || d = 'd' || d = 'o' || d = 'f' then (formatDirectives r').map (· + 1)
        else none
    else formatDirectives r

/-- Every `(format #f "tmpl" args…)` has exactly as many arguments as directives. -/
def formatCallsOk (prog : SExp) : Bool :=
  (sublists prog).all fun l =>
    match l with
    | .sym f :: .bool false :: .str tmpl :: args =>
      if f = cl!"format" then formatDirectives tmpl == some args.length else true
    | .sym f :: _ => if f = cl!"format" then false else true
    | _ => true

/-- The pieces of a rendered program: `(use-modules …)` and
    `(let* (bindings…) (dynamic-wind init (lambda () (lipe-scan dev mount (lambda () body) attrs threads)) fini))`. -/
structure Program where
  modules : List SExp
  bindings : List (Text × SExp)
  init : SExp
  device : SExp
  body : SExp
  threads : SExp
  fini : SExp
  deriving Repr, Inhabited

def bindingOf : SExp → Option (Text × SExp)
  | .list [.sym n, init] => some (n, init)
  | _ => none

def programOf (forms : List SExp) : Option Program :=
  match forms with
  | [.list (.sym um :: mods), .list [.sym ls, .list binds, .list [.sym dw, ini, scan, fin]]] =>
    if um ≠ cl!"use-modules" || ls ≠ cl!"let*" || dw ≠ cl!"dynamic-wind" then none else
    match binds.mapM bindingOf, scan with
    | some bs, .list [.sym lam, .list [], .list [.sym sc, dev, _mount, .list [.sym lam2, .list [], body], _attrs, thr]] =>
      if lam = cl!"lambda" && lam2 = cl!"lambda" && sc = cl!"lipe-scan" then
        some { modules := mods, bindings := bs, init := ini, device := dev, body := body, threads := thr, fini := fin }
      else none
    | _, _ => none
  | _ => none

def hasDup : List Text → Bool
  | [] => false
  | x :: xs => xs.any (· = x) || hasDup xs

/-- Parameters of `(lambda (p…) …)`. -/
def lambdaParams : SExp → List Text
  | .list (.sym l :: .list ps :: _) => if l = cl!"lambda" then ps.filterMap (fun p => match p with | .sym s => some s | _ => none) else []
  | _ => []

/-- `let*` scope: generated names bound once; each init mentions only earlier bindings or its
    own lambda parameters; the body (and init/fini thunks) mention only bound names. -/
def scopeProblem (p : Program) : Option String :=
  let names := p.bindings.map Prod.fst
  if hasDup names then some "generated-name-bound-twice" else
  let rec go (earlier : List Text) : List (Text × SExp) → Option String
    | [] => none
    | (n, ini) :: rest =>
      let used := (symbols ini).filter isGenerated
      let ok := used.all fun u => earlier.any (· = u) || (lambdaParams ini).any (· = u)
      if !ok then some ("binding-uses-unbound-name " ++ String.ofList n) else go (earlier ++ [n]) rest
  match go [] p.bindings with
  | some e => some e
  | none =>
    let used := ((symbols p.body) ++ (symbols p.init) ++ (symbols p.fini)).filter isGenerated
    if used.all fun u => names.any (· = u) then none else some "body-uses-unbound-name"

end Scheme
end FV

namespace FV
namespace Scheme

/-- What Guile's `format` prints for a template used WITHOUT arguments: `~~` prints a tilde, any
    other `~` would need an argument (or is an unknown directive): `none`. -/
def formatPlain : Text → Option Text
  | [] => some []
  | c :: r =>
    if c = '~' then
      match r with
      | d :: r' => if d = '~' then (formatPlain r').map ('~' :: ·) else none
      | [] => none
    else (formatPlain r).map (c :: ·)

end Scheme
end FV
