import FindVerif.Model.Ast
/-
  The find expression grammar over tokens, as a stratified inductive relation.
  The left-recursive rules *are* "associates to the left"; the stratification *is* the
  precedence order `! > AND > OR > ,`; `paren` returning the inner tree *is* "parentheses
  group without leaving a node".
-/
namespace FV
namespace Spec

/-- A primary token and the leaf it denotes. -/
def primOf : Token → Option Expr
  | .test t => some (.test t)
  | .action a => some (.action a)
  | .global g => some (.global g)
  | .positional p => some (.positional p)
  | _ => none

mutual
/-- atom ::= primary | '!' atom | '(' list ')' -/
inductive GAtom : List Token → Expr → Prop
  | prim {t : Token} {e : Expr} : primOf t = some e → GAtom [t] e
  | not {ts : List Token} {e : Expr} : GAtom ts e → GAtom (Token.not :: ts) (Expr.not e)
  | paren {ts : List Token} {e : Expr} : GList ts e → GAtom (Token.lparen :: (ts ++ [Token.rparen])) e
/-- and ::= atom | and '-a' atom | and atom -/
inductive GAnd : List Token → Expr → Prop
  | atom {ts : List Token} {e : Expr} : GAtom ts e → GAnd ts e
  | andE {ts₁ ts₂ : List Token} {e₁ e₂ : Expr} :
      GAnd ts₁ e₁ → GAtom ts₂ e₂ → GAnd (ts₁ ++ Token.and :: ts₂) (Expr.and e₁ e₂)
  | andI {ts₁ ts₂ : List Token} {e₁ e₂ : Expr} :
      GAnd ts₁ e₁ → GAtom ts₂ e₂ → GAnd (ts₁ ++ ts₂) (Expr.and e₁ e₂)
/-- or ::= and | or '-o' and -/
inductive GOr : List Token → Expr → Prop
  | and {ts : List Token} {e : Expr} : GAnd ts e → GOr ts e
  | or {ts₁ ts₂ : List Token} {e₁ e₂ : Expr} :
      GOr ts₁ e₁ → GAnd ts₂ e₂ → GOr (ts₁ ++ Token.or :: ts₂) (Expr.or e₁ e₂)
/-- list ::= or | list ',' or -/
inductive GList : List Token → Expr → Prop
  | or {ts : List Token} {e : Expr} : GOr ts e → GList ts e
  | comma {ts₁ ts₂ : List Token} {e₁ e₂ : Expr} :
      GList ts₁ e₁ → GOr ts₂ e₂ → GList (ts₁ ++ Token.comma :: ts₂) (Expr.list e₁ e₂)
end

end Spec
end FV
