import FindVerif.Model.Ast
/-
  The printf mini-language of `-printf`/`-fprintf` as a one-pass scanner (reference segmentation).
  Independent of the model.
-/
namespace FV
namespace Spec
namespace Printf

/-- Nullary `%` directives (after the percent sign), from find's manual plus the Lustre ones. -/
def directives : List (Text × FormatField) :=
  [ (cl!"%", .percent), (cl!"a", .access), (cl!"b", .diskSizeBlocks), (cl!"c", .change), (cl!"d", .depth),
    (cl!"D", .deviceNumber), (cl!"f", .basename), (cl!"F", .fsType), (cl!"g", .group), (cl!"G", .groupId),
    (cl!"h", .parents), (cl!"H", .startingPoint), (cl!"i", .inodeDecimal), (cl!"k", .diskSizeKilos),
    (cl!"l", .symbolicTarget), (cl!"m", .permissionsOctal), (cl!"M", .permissionsSymbolic), (cl!"n", .hardlinks),
    (cl!"p", .name), (cl!"P", .nameWithoutStartingPoint), (cl!"s", .diskSizeBytes), (cl!"S", .sparseness),
    (cl!"t", .modify), (cl!"u", .user), (cl!"U", .userId), (cl!"y", .type), (cl!"Y", .typeSymlink),
    (cl!"Z", .securityContext), (cl!"{fid}", .fileId), (cl!"{projid}", .projectId),
    (cl!"{mirror-count}", .mirrorCount), (cl!"{stripe-count}", .stripeCount), (cl!"{stripe-size}", .stripeSize) ]

/-- Single-character escapes (after the backslash). -/
def escapes : List (Char × FormatSpecial) :=
  [ ('a', .alarm), ('b', .backspace), ('c', .clear), ('f', .form), ('n', .newline), ('r', .carriageReturn),
    ('t', .tabHorizontal), ('v', .tabVertical), ('0', .null), ('\\', .backslash) ]

/-- The directive at the start of `s` (just after `%`), with the remaining text. -/
def directive (s : Text) : Option (FormatField × Text) :=
  match directives.find? (fun kv => isPrefix kv.1 s) with
  | some kv => some (kv.2, s.drop kv.1.length)
  | none =>
    match s with
    | 'A' :: k :: r => some (.accessFormatted k, r)
    | 'C' :: k :: r => some (.changeFormatted k, r)
    | 'T' :: k :: r => some (.modifyFormatted k, r)
    | _ =>
      if isPrefix (cl!"{xattr:") s then
        let body := s.drop 7
        let name := body.takeWhile isAlpha
        match body.dropWhile isAlpha with
        | '}' :: r => if name.isEmpty then none else some (.xattr name, r)
        | _ => none
      else none

/-- The escape at the start of `s` (just after the backslash), with the remaining text: exactly
    three octal digits, a table entry, or the backslash alone. -/
def escape (s : Text) : FormatSpecial × Text :=
  match s with
  | a :: b :: c :: r =>
    if isOct a && isOct b && isOct c then (.ascii (octVal [a, b, c]), r)
    else match escapes.find? (fun kv => kv.1 = a) with
      | some kv => (kv.2, b :: c :: r)
      | none => (.backslash, s)
  | a :: r =>
    match escapes.find? (fun kv => kv.1 = a) with
    | some kv => (kv.2, r)
    | none => (.backslash, s)
  | [] => (.backslash, [])

def flush (buf : Text) : List FormatElement := if buf.isEmpty then [] else [.literal buf.reverse]

/-- Segment a format string; `none` = a `%` not followed by a documented directive. -/
def segAux : Nat → Text → Text → Option (List FormatElement)
  | 0, _, _ => none
  | _ + 1, buf, [] => some (flush buf)
  | fuel + 1, buf, c :: cs =>
    if c = '%' then
      match directive cs with
      | some (f, rest) => (segAux fuel [] rest).map fun tl => flush buf ++ .field f :: tl
      | none => none
    else if c = '\\' then
      let (sp, rest) := escape cs
      (segAux fuel [] rest).map fun tl => flush buf ++ .special sp :: tl
    else segAux fuel (c :: buf) cs

def seg (s : Text) : Option (List FormatElement) := segAux (s.length + 1) [] s

end Printf
end Spec
end FV
