import FindVerif.Model.Ast
/-
  What the properties say about actions, written declaratively: where an action writes, how its
  records are terminated, "contains an action", "needs framed output".
-/
namespace FV
namespace Spec

/-- Destination of an output-producing action: `none` = standard output. -/
def destination : Action → Option (Option Text)
  | .print | .printNull | .printFormatted _ | .printFid | .list | .defaultPrint => some none
  | .filePrint f | .filePrintNull f | .filePrintFormatted f _ | .fileList f => some (some f)
  | .prune | .quit => none

/-- Record terminator appended by the action: newline, NUL, or nothing (formatted output). -/
def terminator : Action → Option Char
  | .print | .filePrint _ | .printFid | .list | .fileList _ | .defaultPrint => some '\n'
  | .printNull | .filePrintNull _ => some '\x00'
  | _ => none

def writesToFile (a : Action) : Prop := ∃ f, destination a = some (some f)

def nulTerminated (a : Action) : Prop := terminator a = some '\x00'

/-- A formatted print to standard output whose last element exists and is not the newline escape. -/
def formatNotNewlineEnded (a : Action) : Prop :=
  ∃ fmt last, a = .printFormatted fmt ∧ fmt.getLast? = some last ∧ last ≠ .special .newline

/-- "some action writes to a file, terminates records with NUL, or prints a format not ending in
    a newline escape" — for one action. -/
def actionNeedsFraming (a : Action) : Prop :=
  writesToFile a ∨ nulTerminated a ∨ formatNotNewlineEnded a

/-- An action node occurs at some depth. -/
inductive ContainsAction : Expr → Prop
  | here (a : Action) : ContainsAction (.action a)
  | prec {e} : ContainsAction e → ContainsAction (.prec e)
  | not {e} : ContainsAction e → ContainsAction (.not e)
  | andL {a b} : ContainsAction a → ContainsAction (.and a b)
  | andR {a b} : ContainsAction b → ContainsAction (.and a b)
  | orL {a b} : ContainsAction a → ContainsAction (.or a b)
  | orR {a b} : ContainsAction b → ContainsAction (.or a b)
  | listL {a b} : ContainsAction a → ContainsAction (.list a b)
  | listR {a b} : ContainsAction b → ContainsAction (.list a b)

/-- Some action at some depth needs framed output. -/
inductive NeedsFraming : Expr → Prop
  | here {a : Action} : actionNeedsFraming a → NeedsFraming (.action a)
  | prec {e} : NeedsFraming e → NeedsFraming (.prec e)
  | not {e} : NeedsFraming e → NeedsFraming (.not e)
  | andL {a b} : NeedsFraming a → NeedsFraming (.and a b)
  | andR {a b} : NeedsFraming b → NeedsFraming (.and a b)
  | orL {a b} : NeedsFraming a → NeedsFraming (.or a b)
  | orR {a b} : NeedsFraming b → NeedsFraming (.or a b)
  | listL {a b} : NeedsFraming a → NeedsFraming (.list a b)
  | listR {a b} : NeedsFraming b → NeedsFraming (.list a b)

/-- The (destination, terminator) pair an output action writes to, as a destination-table entry.
    `-print-file-fid`, the implicit print and `-quit` write no framed record. -/
def target (a : Action) : Option Target :=
  match a with
  | .print => some (.stdout (some '\n')) | .printNull => some (.stdout (some '\x00'))
  | .printFormatted _ => some (.stdout none)
  | .filePrint f => some (.file f (some '\n')) | .filePrintNull f => some (.file f (some '\x00'))
  | .filePrintFormatted f _ => some (.file f none)
  | _ => none

/-- The actions of a tree, left to right. -/
def actionsOf : Expr → List Action
  | .action a => [a]
  | .prec e | .not e => actionsOf e
  | .and a b | .or a b | .list a b => actionsOf a ++ actionsOf b
  | _ => []

/-- Unit tables as the property states them. -/
def sizeUnitBytes : List Nat := [1, 2, 512, 2^10, 2^20, 2^30, 2^40]
def timeUnitSeconds : List Nat := [1, 60, 3600, 86400]

end Spec
end FV
