import FindVerif.Model.Ast
/-
  Scan-wide options, as the property states them: the returned options carry the value of the
  last occurrence of each; a leading run of options leaves the rest of the expression untouched
  (an empty rest means `-true`); an option inside the expression behaves there as `-true`.
-/
namespace FV
namespace Spec

def applyOption (o : RunOptions) : GlobalOption → RunOptions
  | .depth => { o with depth := true }
  | .threads n => { o with threads := some n }
  | _ => o

def isGlobalTok : Token → Bool
  | .global _ => true
  | _ => false

/-- Options of a token sequence: every option token, in order, last occurrence wins. -/
def optionsOf (ts : List Token) : RunOptions :=
  ts.foldl (fun o t => match t with | .global g => applyOption o g | _ => o) {}

/-- The expression tokens: the leading run of options is dropped (an empty rest is `-true`),
    every later option is replaced by `-true`. -/
def expressionOf (ts : List Token) : List Token :=
  match ts.dropWhile isGlobalTok with
  | [] => [Token.test .true_]
  | rest => rest.map fun t => if isGlobalTok t then Token.test .true_ else t

end Spec
end FV
