import FindVerif.Spec.Grammar
/- A canonical unparser: every tree without explicit-precedence nodes has a spelling, with the
   parentheses its shape requires and either form of AND. -/
namespace FV
namespace Spec

/-- No `Precedence` node (the parser never builds one). -/
def Plain : Expr → Prop
  | .prec _ => False
  | .not e => Plain e
  | .and a b | .or a b | .list a b => Plain a ∧ Plain b
  | _ => True

def wrap (b : Bool) (ts : List Token) : List Token :=
  if b then Token.lparen :: (ts ++ [Token.rparen]) else ts

/-- Spell `e` for a position that requires binding level ≥ `lvl`
    (0 = list, 1 = or, 2 = and, 3 = atom); `x` chooses explicit `-a`. -/
def spellAt (x : Bool) : Nat → Expr → List Token
  | lvl, .and a b => wrap (decide (2 < lvl)) (spellAt x 2 a ++ (if x then [Token.and] else []) ++ spellAt x 3 b)
  | lvl, .or a b => wrap (decide (1 < lvl)) (spellAt x 1 a ++ [Token.or] ++ spellAt x 2 b)
  | lvl, .list a b => wrap (decide (0 < lvl)) (spellAt x 0 a ++ [Token.comma] ++ spellAt x 1 b)
  | _, .not a => Token.not :: spellAt x 3 a
  | lvl, .prec a => spellAt x lvl a
  | _, .test t => [Token.test t]
  | _, .action a => [Token.action a]
  | _, .global g => [Token.global g]
  | _, .positional p => [Token.positional p]

def spell (x : Bool) (e : Expr) : List Token := spellAt x 0 e

end Spec
end FV
