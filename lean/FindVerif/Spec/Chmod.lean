import FindVerif.Model.Text
/-
  chmod's rules for symbolic modes `[ugoa]+[+-=][rwx]+(,…)*`, stated per permission bit.
  A mode is a function from (class, permission) to Bool; the set-id and sticky bits are not
  touched by these clauses.  Independent of the model.
-/
namespace FV
namespace Spec

inductive Who | u | g | o deriving DecidableEq, Repr
inductive Perm | r | w | x deriving DecidableEq, Repr
inductive Op | add | del | set deriving DecidableEq, Repr

structure Clause where
  who : List Who
  op : Op
  perms : List Perm
  deriving Repr, DecidableEq

abbrev PermFn := Who → Perm → Bool

/-- One clause applied to one bit. -/
def clauseBit (cl : Clause) (c : Who) (p : Perm) (old : Bool) : Bool :=
  if c ∈ cl.who then
    match cl.op with
    | .add => old || decide (p ∈ cl.perms)
    | .del => old && !decide (p ∈ cl.perms)
    | .set => decide (p ∈ cl.perms)
  else old

def applyClause (cl : Clause) (m : PermFn) : PermFn := fun c p => clauseBit cl c p (m c p)

/-- Apply the clauses in order, starting from mode 0. -/
def chmodFrom0 (cls : List Clause) : PermFn := cls.foldl (fun m cl => applyClause cl m) (fun _ _ => false)

def weight (c : Who) (p : Perm) : Nat :=
  (match p with | .r => 4 | .w => 2 | .x => 1) * (match c with | .u => 64 | .g => 8 | .o => 1)

def allBits : List (Who × Perm) :=
  [(.u,.r),(.u,.w),(.u,.x),(.g,.r),(.g,.w),(.g,.x),(.o,.r),(.o,.w),(.o,.x)]

/-- The numeric mode with the standard weights. -/
def toBits (m : PermFn) : Nat := (allBits.map fun cp => if m cp.1 cp.2 then weight cp.1 cp.2 else 0).sum

def whoOfChar (c : Char) : Option (List Who) :=
  if c = 'u' then some [.u] else if c = 'g' then some [.g] else if c = 'o' then some [.o]
  else if c = 'a' then some [.u, .g, .o] else none

def permOfChar (c : Char) : Option Perm :=
  if c = 'r' then some .r else if c = 'w' then some .w else if c = 'x' then some .x else none

def opOfChar (c : Char) : Option Op :=
  if c = '+' then some .add else if c = '-' then some .del else if c = '=' then some .set else none

/-- Read one clause `[ugoa]+[+-=][rwx]+` (the whole text). -/
def readClause (t : Text) : Option Clause :=
  let whoCs := t.takeWhile (fun c => (whoOfChar c).isSome)
  match t.dropWhile (fun c => (whoOfChar c).isSome) with
  | [] => none
  | opC :: permCs =>
    match opOfChar opC, permCs.mapM permOfChar with
    | some op, some perms =>
      if whoCs.isEmpty || perms.isEmpty then none
      else some { who := (whoCs.filterMap whoOfChar).flatten, op := op, perms := perms }
    | _, _ => none

def splitOnComma : Text → List Text
  | [] => [[]]
  | c :: cs =>
    match splitOnComma cs with
    | [] => [[c]]
    | w :: ws => if c = ',' then [] :: w :: ws else (c :: w) :: ws

/-- Read a comma-separated clause list (the whole text). -/
def readClauses (t : Text) : Option (List Clause) := (splitOnComma t).mapM readClause

/-- The twelve permission bits denoted by a `-perm` mode argument (without its prefix):
    three or more octal digits denote their value (which must be a mode, < 0o10000);
    otherwise a symbolic clause list applied to mode 0. -/
def modeBits (t : Text) : Option Nat :=
  if 3 ≤ t.length && t.all isOct then
    if octVal t < 4096 then some (octVal t) else none
  else (readClauses t).map fun cls => toBits (chmodFrom0 cls)

end Spec
end FV
