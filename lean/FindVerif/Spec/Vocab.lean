import FindVerif.Spec.Chmod
import FindVerif.Spec.Printf
/-
  The supported vocabulary, written from find's manual and the crate's documentation: for each
  keyword its argument language (a reader on the complete argument word: `none` = not in the
  language) and the node it denotes.  Independent of the model's keyword tables.
-/
namespace FV
namespace Spec

def readUint (bound : Nat) (w : Text) : Option Nat :=
  if !w.isEmpty && w.all isDigit && decVal w < bound then some (decVal w) else none

/-- `N`, `+N`, `-N`. -/
def readCmp {α : Type} (f : Text → Option α) (w : Text) : Option (Comparison α) :=
  match w with
  | '+' :: r => (f r).map .gt
  | '-' :: r => (f r).map .lt
  | _ => (f w).map .eq

def sizeOfUnit (c : Char) (n : Nat) : Option Size :=
  if c = 'b' then some (.block n) else if c = 'c' then some (.byte n) else if c = 'w' then some (.word n)
  else if c = 'k' then some (.kilo n) else if c = 'M' then some (.mega n) else if c = 'G' then some (.giga n)
  else if c = 'T' then some (.tera n) else none

/-- digits followed by at most one unit letter; default unit: 512-byte blocks. -/
def readSize (w : Text) : Option Size :=
  let ds := w.takeWhile isDigit
  match readUint (2^64) ds, w.dropWhile isDigit with
  | some n, [] => some (.block n)
  | some n, [u] => sizeOfUnit u n
  | _, _ => none

def timeOfUnit (c : Char) (n : Nat) : Option TimeSpec :=
  if c = 's' then some (.second n) else if c = 'm' then some (.minute n) else if c = 'h' then some (.hour n)
  else if c = 'd' then some (.day n) else none

def readTime (dflt : Nat → TimeSpec) (w : Text) : Option TimeSpec :=
  let ds := w.takeWhile isDigit
  match readUint (2^64) ds, w.dropWhile isDigit with
  | some n, [] => some (dflt n)
  | some n, [u] => timeOfUnit u n
  | _, _ => none

def typeOfChar (c : Char) : Option FileType :=
  if c = 'b' then some .block else if c = 'c' then some .character else if c = 'd' then some .directory
  else if c = 'p' then some .pipe else if c = 'f' then some .file else if c = 'l' then some .link
  else if c = 's' then some .socket else none

/-- Comma-separated single type letters. -/
def readTypes (w : Text) : Option (List FileType) :=
  (splitOnComma w).mapM fun item => match item with
    | [c] => typeOfChar c
    | _ => none

/-- Prefix selects the check; the rest is an octal or symbolic mode. -/
def readPerm (w : Text) : Option PermCheck :=
  match w with
  | '/' :: r => (modeBits r).map .any
  | '-' :: r => (modeBits r).map .atLeast
  | _ => (modeBits w).map .equal

/-- An argument word as typed: bare, or wrapped in one kind of quote (content non-empty and
    free of that quote).  The value is the content. -/
def unquote (w : Text) : Option Text :=
  match w with
  | '"' :: r =>
    match r.reverse with
    | '"' :: body => if body.isEmpty || body.any (· = '"') then none else some body.reverse
    | _ => none
  | '\'' :: r =>
    match r.reverse with
    | '\'' :: body => if body.isEmpty || body.any (· = '\'') then none else some body.reverse
    | _ => none
  | [] => none
  | _ => if w.any (fun c => isBlank c || c = ')') then none else some w

inductive Expect where
  | token (t : Token)      -- the keyword with these arguments denotes this token
  | reject                 -- the arguments are not in the keyword's language: must be an error
  | unknown                -- not a keyword of the vocabulary / wrong number of argument words
  deriving Repr

def ofOpt (o : Option Token) : Expect := match o with | some t => .token t | none => .reject

def strTest (mk : Text → Test) (args : List Text) : Expect :=
  match args with
  | [w] => ofOpt ((unquote w).map fun s => Token.test (mk s))
  | [] => .reject
  | _ => .unknown

def cmpTest (bound : Nat) (mk : Comparison Nat → Test) (args : List Text) : Expect :=
  match args with
  | [w] => ofOpt ((readCmp (readUint bound) w).map fun c => Token.test (mk c))
  | [] => .reject
  | _ => .unknown

def timeTest (dflt : Nat → TimeSpec) (mk : Comparison TimeSpec → Test) (args : List Text) : Expect :=
  match args with
  | [w] => ofOpt ((readCmp (readTime dflt) w).map fun c => Token.test (mk c))
  | [] => .reject
  | _ => .unknown

def nullary (t : Token) (args : List Text) : Expect := if args.isEmpty then .token t else .unknown

def strAction (mk : Text → Action) (args : List Text) : Expect :=
  match args with
  | [w] => ofOpt ((unquote w).map fun s => Token.action (mk s))
  | [] => .reject
  | _ => .unknown

/-- The token denoted by `keyword argument…` (arguments as typed, one word each). -/
def expectedToken (kw : String) (args : List Text) : Expect :=
  match kw with
  -- tests
  | "-amin" => timeTest .minute .accessTime args
  | "-atime" => timeTest .day .accessTime args
  | "-cmin" => timeTest .minute .changeTime args
  | "-ctime" => timeTest .day .changeTime args
  | "-mmin" => timeTest .minute .modifyTime args
  | "-mtime" => timeTest .day .modifyTime args
  | "-anewer" => strTest .accessNewer args
  | "-cnewer" => strTest .changeNewer args
  | "-mnewer" => strTest .modifyNewer args
  | "-empty" => nullary (.test .empty) args
  | "-executable" => nullary (.test .executable) args
  | "-false" => nullary (.test .false_) args
  | "-true" => nullary (.test .true_) args
  | "-readable" => nullary (.test .readable) args
  | "-writable" => nullary (.test .writable) args
  | "-nouser" => nullary (.test .noUser) args
  | "-nogroup" => nullary (.test .noGroup) args
  | "-fstype" => strTest .fsType args
  | "-gid" => cmpTest (2^32) .groupId args
  | "-uid" => cmpTest (2^32) .userId args
  | "-inum" => cmpTest (2^32) .inodeNumber args
  | "-links" => cmpTest (2^64) .links args
  | "-mirror-count" => cmpTest (2^32) .mirrorCount args
  | "-stripe-count" => cmpTest (2^32) .stripeCount args
  | "-group" => strTest .group args
  | "-user" => strTest .user args
  | "-ilname" => strTest .insensitiveLinkName args
  | "-iname" => strTest .insensitiveName args
  | "-ipath" => strTest .insensitivePath args
  | "-iregex" => strTest .insensitiveRegex args
  | "-name" => strTest .name args
  | "-path" => strTest .path args
  | "-pool" => strTest .pool args
  | "-regex" => strTest .regex args
  | "-samefile" => strTest .samefile args
  | "-xattr" => strTest .xattr args
  | "-xattr-match" =>
    match args with
    | [a, b] => ofOpt (match unquote a, unquote b with
        | some x, some y => some (Token.test (.xattrMatch x y))
        | _, _ => none)
    | [] | [_] => .reject
    | _ => .unknown
  | "-perm" =>
    match args with
    | [w] => ofOpt (((unquote w).bind readPerm).map fun p => Token.test (.perm p))
    | [] => .reject
    | _ => .unknown
  | "-size" =>
    match args with
    | [w] => ofOpt ((readCmp readSize w).map fun c => Token.test (.size c))
    | [] => .reject
    | _ => .unknown
  | "-type" =>
    match args with
    | [w] => ofOpt ((readTypes w).map fun l => Token.test (.type l))
    | [] => .reject
    | _ => .unknown
  -- actions
  | "-fls" => strAction .fileList args
  | "-fprint" => strAction .filePrint args
  | "-fprint0" => strAction .filePrintNull args
  | "-fprintf" =>
    match args with
    | [f, fmt] => ofOpt (match unquote f, (unquote fmt).bind Printf.seg with
        | some x, some y => some (Token.action (.filePrintFormatted x y))
        | _, _ => none)
    | [] | [_] => .reject
    | _ => .unknown
  | "-printf" =>
    match args with
    | [fmt] => ofOpt (((unquote fmt).bind Printf.seg).map fun y => Token.action (.printFormatted y))
    | [] => .reject
    | _ => .unknown
  | "-ls" => nullary (.action .list) args
  | "-print" => nullary (.action .print) args
  | "-print0" => nullary (.action .printNull) args
  | "-print-file-fid" => nullary (.action .printFid) args
  | "-prune" => nullary (.action .prune) args
  | "-quit" => nullary (.action .quit) args
  -- options
  | "-depth" => nullary (.global .depth) args
  | "-threads" =>
    match args with
    | [w] => ofOpt ((readUint (2^32) w).map fun n => Token.global (.threads n))
    | [] => .reject
    | _ => .unknown
  -- operators and punctuation
  | "(" => nullary .lparen args
  | ")" => nullary .rparen args
  | "!" => nullary .not args
  | "," => nullary .comma args
  | "-a" => nullary .and args
  | "-and" => nullary .and args
  | "-o" => nullary .or args
  | "-or" => nullary .or args
  | _ => .unknown

end Spec
end FV
