/-
  Interleaving machine for scanner threads that print through generated printers.
  A printer call is a critical section: lock the port's mutex, write the pieces of the record
  (payload, then terminator — or payload, then separator+tag in framed mode), unlock.
  Threads are sequences of such sections; a schedule picks which thread moves next.
  Independent of the model.
-/
namespace FV
namespace Conc

/-- One printer call: the port it writes to, the mutex it takes, the pieces it writes. -/
structure Sec where
  port : Nat
  mutex : Nat
  pieces : List (List Nat)
  deriving Repr, DecidableEq

inductive Phase where
  | idle
  | inside (done : Nat)   -- holding the mutex of the head section, `done` pieces written
  deriving Repr, DecidableEq

structure TState where
  todo : List Sec
  phase : Phase
  deriving Repr

structure St where
  threads : List TState
  /-- bytes that have arrived on each port, in order -/
  log : Nat → List Nat
  /-- ghost: the records completed on each port, in completion order -/
  doneRecs : Nat → List (List Nat)

def record (s : Sec) : List Nat := s.pieces.flatten

/-- Thread `t` holds mutex `m`: it is inside a section that took it. -/
def holds (t : TState) (m : Nat) : Bool :=
  match t.todo, t.phase with
  | sec :: _, .inside _ => sec.mutex == m
  | _, _ => false

/-- Mutex `m` is held by some thread. -/
def held (s : St) (m : Nat) : Bool := s.threads.any (holds · m)

def update (f : Nat → α) (k : Nat) (v : α) : Nat → α := fun x => if x = k then v else f x

/-- One move of thread `i`; `none` when the thread is finished or blocked on a held mutex. -/
def step (s : St) (i : Nat) : Option St :=
  match s.threads[i]? with
  | none => none
  | some t =>
    match t.todo, t.phase with
    | [], _ => none
    | sec :: _, .idle =>
      if held s sec.mutex then none
      else some { s with threads := s.threads.set i { t with phase := .inside 0 } }
    | sec :: rest, .inside k =>
      match sec.pieces[k]? with
      | some piece =>
        some { s with threads := s.threads.set i { t with phase := .inside (k + 1) },
                      log := update s.log sec.port (s.log sec.port ++ piece) }
      | none =>
        some { s with threads := s.threads.set i { todo := rest, phase := .idle },
                      doneRecs := update s.doneRecs sec.port (s.doneRecs sec.port ++ [record sec]) }

/-- A schedule is a list of thread choices; a choice that cannot move is skipped. -/
def run : List Nat → St → St
  | [], s => s
  | i :: is, s => match step s i with
    | some s' => run is s'
    | none => run is s

def init (prog : List (List Sec)) : St :=
  { threads := prog.map fun secs => { todo := secs, phase := .idle },
    log := fun _ => [], doneRecs := fun _ => [] }

/-- All sections still to be completed on port `p` (including the ones in progress). -/
def pending (s : St) (p : Nat) : List (List Nat) :=
  (s.threads.flatMap fun t => t.todo).filterMap fun sec => if sec.port = p then some (record sec) else none

/-- What the thread currently inside a section on port `p` has written of it so far. -/
def partialOf (t : TState) (p : Nat) : List Nat :=
  match t.todo, t.phase with
  | sec :: _, .inside k => if sec.port = p then (sec.pieces.take k).flatten else []
  | _, _ => []

def allDone (s : St) : Prop := ∀ t ∈ s.threads, t.todo = []

/-- One mutex per port: every section takes the mutex that belongs to its port. -/
def WellLocked (prog : List (List Sec)) (mutexOf : Nat → Nat) : Prop :=
  ∀ secs ∈ prog, ∀ sec ∈ secs, sec.mutex = mutexOf sec.port

end Conc
end FV
