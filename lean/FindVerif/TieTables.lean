import FindVerif.Gen.Tables
import FindVerif.Model.Lex.Permission
import FindVerif.Model.Parse
/-
  Static tie, part 2 (DESIGN.md §0.7): the constant tables of `ast.rs`, `permission.rs` and
  `scheme/target_scheme.rs` as read from the current source by `tools/rs2lean.py`
  (`Gen/Tables.lean`) are the model's.  Every theorem is a case split over the constructors.
-/
namespace FV.TieTables
open FV

/-! ### manager.rs / target_scheme.rs: the escaping functions (anchors of C04 and C20) -/

theorem schemeEscape : Gen.schemeEscape = FV.schemeEscape := by
  funext s
  induction s with
  | nil => rfl
  | cons c cs ih =>
    show Gen.escapeChar c ++ Gen.schemeEscape cs = _
    rw [ih]
    rfl

theorem isPattern : Gen.isPattern = FV.isPattern := rfl
theorem terminatorEscape : Gen.terminatorEscape = FV.terminatorEscape := by funext t; cases t <;> rfl
theorem templateEscape : Gen.templateEscape = FV.templateEscape := by
  funext s; simp only [Gen.templateEscape, FV.templateEscape, schemeEscape]

theorem sizeMult : Gen.sizeMult = Size.mult := by funext s; cases s <;> rfl
theorem timeSecs : Gen.timeSecs = TimeSpec.secs := by funext t; cases t <;> rfl
theorem fileTypeOctal : Gen.fileTypeOctal = FileType.octal := by funext t; cases t <;> rfl
theorem permValue : Gen.permValue = FV.permValue := rfl
theorem specialLiteral : Gen.specialLiteral = FV.specialLiteral := by funext s; cases s <;> rfl
theorem placeholder : Gen.placeholder = FV.placeholder := by funext f; cases f <;> rfl
theorem snippetBody : Gen.snippetBody = FV.snippetBody := by funext f; cases f <;> rfl

theorem formatCmp : Gen.formatCmp = FV.formatCmp := by funext c t; cases c <;> rfl
theorem formatCmp2 {α : Type} : @Gen.formatCmp2 α = @FV.formatCmp2 α := by funext c l r; cases c <;> rfl
theorem sizeMatching : Gen.sizeMatching = FV.sizeMatching := by funext s; cases s <;> rfl
theorem compilePermCheck : Gen.compilePermCheck = FV.compilePermCheck := by funext p; cases p <;> rfl

/-! ### the format-list generator and the size comparison (target_scheme.rs) -/

theorem exactByteSize : Gen.exactByteSize = FV.exactByteSize := by
  funext s; simp only [Gen.exactByteSize, FV.exactByteSize, sizeMult]

theorem compileSizeComp : Gen.compileSizeComp = FV.compileSizeComp := by
  funext c; simp only [Gen.compileSizeComp, FV.compileSizeComp, formatCmp2, sizeMatching, exactByteSize]

theorem compileTypeList : Gen.compileTypeList = FV.compileTypeList := by
  funext l; simp only [Gen.compileTypeList, FV.compileTypeList, fileTypeOctal]; rfl

theorem joinWith_nil : ∀ (ts : List Text), joinWith [] ts = ts.flatten
  | [] => rfl
  | [x] => by simp [joinWith]
  | x :: y :: r => by
    have ih := joinWith_nil (y :: r)
    simp only [joinWith, List.append_nil, ih, List.flatten_cons]

theorem skelElement_model : Gen.skelElement FV.templateEscape FV.placeholder FV.specialLiteral = FV.elementTemplate := by
  funext e; cases e <;> rfl

theorem skelItems_model : Gen.skelItems FV.snippetBody = FV.itemsOf := by
  funext es; rfl

theorem collect_templateOf (es : List FormatElement) :
    (match Gen.skelCollect FV.elementTemplate es with
     | .ok ts => FV.templateOf es = .ok ts.flatten
     | .error x => FV.templateOf es = .error x) := by
  induction es with
  | nil => rfl
  | cons e es ih =>
    simp only [Gen.skelCollect, FV.templateOf]
    cases he : FV.elementTemplate e with
    | error x => rfl
    | ok t =>
      simp only
      cases hc : Gen.skelCollect FV.elementTemplate es with
      | error x => rw [hc] at ih; simp only at ih; rw [ih]
      | ok ts => rw [hc] at ih; simp only at ih; rw [ih]; simp only [List.flatten_cons]

/-- `impl TargetScheme for Vec<FormatElement>`: which function renders each kind of element, which fields
    contribute an argument, the separators and the `(format #f "…" …)` template, read from the source
    (matched as a statement skeleton), give the model's `compileFormat`. -/
theorem compileFormat : Gen.compileFormat = FV.compileFormat := by
  funext es
  unfold Gen.compileFormat Gen.formatSkeleton FV.compileFormat
  rw [templateEscape, placeholder, specialLiteral, snippetBody, skelElement_model, skelItems_model]
  have h := collect_templateOf es
  cases hc : Gen.skelCollect FV.elementTemplate es with
  | error x => rw [hc] at h; simp only at h; rw [h]
  | ok ts => rw [hc] at h; simp only at h; rw [h]; simp only [joinWith_nil]

/-- `impl TargetScheme for Test`: 26 arms read from the source (constant texts, comparison fields,
    time fields, matcher templates, helper calls); the 14 remaining arms (the unsupported tests and
    `-xattr-match`) refer to the model and are pinned by their token text. -/
theorem compileTest : Gen.compileTest = FV.compileTest := by
  funext clk t st
  cases t <;> first | rfl | (simp only [Gen.compileTest, schemeEscape, compileSizeComp, compileTypeList]; rfl)


/-- `impl TargetScheme for Action`: 9 arms read from the source (constant texts, which printer is
    requested with which terminator, the template around the printer name and the format); the three
    refused actions refer to the model (their payload is a `Debug` rendering). -/
theorem compileAction : Gen.compileAction = FV.compileAction := by
  funext a st; cases a <;> rfl

/- `CompiledExpression::scheme(mdt)`: the program template read from the `format!` call is the
    model's prefix ++ quoted escaped path ++ suffix (C20_one_place is about exactly this shape). -/
set_option maxRecDepth 16384 in
theorem scheme : Gen.scheme = Compiled.scheme := by
  funext c mdt
  simp only [Gen.scheme, Compiled.scheme, Compiled.prefix_, Compiled.suffix_, schemeEscape, List.append_assoc,
    List.cons_append, List.nil_append, List.append_nil]


/-- `Expression::action` / `Expression::complex_frames` (the anchors of C19, C09, C10): the recursive
    match read from `ast.rs` is the model's.  The one arm that is not a constant (a formatted print
    whose last element is not the newline escape) refers to the model and is pinned by its text. -/
theorem hasAction : Gen.hasAction = Expr.hasAction := by
  funext e
  induction e with
  | test t => rfl
  | action a => rfl
  | global g => rfl
  | positional p => rfl
  | prec e ih => simp only [Gen.hasAction, Expr.hasAction, ih]
  | not e ih => simp only [Gen.hasAction, Expr.hasAction, ih]
  | and a b iha ihb => simp only [Gen.hasAction, Expr.hasAction, iha, ihb]
  | or a b iha ihb => simp only [Gen.hasAction, Expr.hasAction, iha, ihb]
  | list a b iha ihb => simp only [Gen.hasAction, Expr.hasAction, iha, ihb]

theorem complexFrames : Gen.complexFrames = Expr.complexFrames := by
  funext e
  induction e with
  | test t => rfl
  | action a => cases a <;> rfl
  | global g => rfl
  | positional p => rfl
  | prec e ih => simp only [Gen.complexFrames, Expr.complexFrames, ih]
  | not e ih => simp only [Gen.complexFrames, Expr.complexFrames, ih]
  | and a b iha ihb => simp only [Gen.complexFrames, Expr.complexFrames, iha, ihb]
  | or a b iha ihb => simp only [Gen.complexFrames, Expr.complexFrames, iha, ihb]
  | list a b iha ihb => simp only [Gen.complexFrames, Expr.complexFrames, iha, ihb]

/-- `impl TargetScheme for Expression` and `for Operator`: the recursive code generator read from the
    source (dispatch to the test / action generators, `(and l r)` for AND and for the comma operator,
    `(or l r)`, `(not e)`, the two unreachable arms) is the model's `compileExpr`. -/
theorem compileExpr (clk : Nat → Nat) : ∀ (e : Expr) (st : CState), Gen.compileExpr clk e st = FV.compileExpr clk e st := by
  intro e
  induction e with
  | test t => intro st; simp only [Gen.compileExpr, FV.compileExpr, compileTest]
  | action a => intro st; simp only [Gen.compileExpr, FV.compileExpr, compileAction]
  | global g => intro st; rfl
  | positional p => intro st; rfl
  | prec e ih => intro st; rfl
  | not e ih =>
    intro st
    simp only [Gen.compileExpr, FV.compileExpr, ih, Gen.seq1]
    cases FV.compileExpr clk e st with
    | ok r => cases r; simp only [List.append_assoc]
    | err x => rfl
    | panic s => rfl
  | and a b iha ihb =>
    intro st
    simp only [Gen.compileExpr, FV.compileExpr, FV.compileExpr.bin, iha, Gen.seq2]
    cases FV.compileExpr clk a st with
    | ok r =>
      cases r with
      | mk tl st1 =>
        simp only [ihb]
        cases FV.compileExpr clk b st1 with
        | ok r2 => cases r2; simp only [List.append_assoc]
        | err x => rfl
        | panic s => rfl
    | err x => rfl
    | panic s => rfl
  | or a b iha ihb =>
    intro st
    simp only [Gen.compileExpr, FV.compileExpr, FV.compileExpr.bin, iha, Gen.seq2]
    cases FV.compileExpr clk a st with
    | ok r =>
      cases r with
      | mk tl st1 =>
        simp only [ihb]
        cases FV.compileExpr clk b st1 with
        | ok r2 => cases r2; simp only [List.append_assoc]
        | err x => rfl
        | panic s => rfl
    | err x => rfl
    | panic s => rfl
  | list a b iha ihb =>
    intro st
    simp only [Gen.compileExpr, FV.compileExpr, FV.compileExpr.bin, iha, Gen.seq2]
    cases FV.compileExpr clk a st with
    | ok r =>
      cases r with
      | mk tl st1 =>
        simp only [ihb]
        cases FV.compileExpr clk b st1 with
        | ok r2 => cases r2; simp only [List.append_assoc]
        | err x => rfl
        | panic s => rfl
    | err x => rfl
    | panic s => rfl

/-- `scheme::compile`: which manager is chosen (`complex_frames`), when the default print is added
    (`!action()`), the options text.  The function is plain Rust; the translator matches its statement
    skeleton and reads the conditions, branches and the default text out of it. -/
theorem compile : Gen.compile = FV.compile := by
  funext clk e o
  simp only [Gen.compile, FV.compile, compileExpr, hasAction, complexFrames]
  rfl

/-! ### error.rs and lib.rs (anchors of C18 and C13) -/

theorem explainTable : Gen.explainTable = FV.explainTable := rfl

theorem contextStep : Gen.contextStep = SyntaxContext.step := by
  funext acc c; cases c <;> rfl

/-- The decision table at the end of `ParserError::dispatch` (which error variant, with which
    keyword, word and explanation) is the model's; the statements before it (reversing the context
    list, the fold, re-reading the next word with `String::parse`) are pinned by their text. -/
theorem dispatchDecision (ctx : List Ctx) (rest : Text) :
    FV.dispatch ctx rest =
      (let sc := ctx.reverse.foldl Gen.contextStep {}
       Gen.dispatchDecision sc.test sc.action sc.global sc.description
         (match parseString rest with | .ok w _ => w | _ => [])) := by
  rw [contextStep]
  unfold FV.dispatch Gen.dispatchDecision
  rfl

theorem runOptionsUpdate : Gen.runOptionsUpdate = RunOptions.update := by
  funext o g; cases g <;> rfl

/-! ### manager.rs (anchor of C11, C10, C16): the TEXT of every binding the managers push, with the
    index expression used at each site, the matcher table, the generated names, the fixed bindings
    and start index of the framed manager, the separators.  The control flow of the managers (look
    up, allocate, record) is not translated: it stays tied by the byte-for-byte correspondence. -/

theorem localDefaultPortVars (i : Nat) :
    [Binding.render (.stdoutPort i), Binding.render (.mutex (i + 1))] = Gen.localDefaultPortVars i := by
  simp only [Binding.render, Gen.localDefaultPortVars, lf3, List.append_assoc, List.cons_append, List.nil_append]

theorem localPrinterVar (i p m : Nat) (term : Option Char) :
    Binding.render (.printerL i p m term) = Gen.localPrinterVar i p m term := by
  simp only [Binding.render, Gen.localPrinterVar, lf3, terminatorEscape, List.append_assoc, List.cons_append, List.nil_append]

theorem localFilePortVars (i : Nat) (filename : Text) :
    [Binding.render (.filePort i filename), Binding.render (.mutex (i + 1))] = Gen.localFilePortVars i filename := by
  simp only [Binding.render, Gen.localFilePortVars, lf3, schemeEscape, List.append_assoc, List.cons_append, List.nil_append]

theorem localFilePortFini (i : Nat) :
    cl!"(close-port " ++ lf3 (cl!"port") i ++ cl!")" = Gen.localFilePortFini i := by
  simp only [Gen.localFilePortFini, lf3, List.append_assoc, List.cons_append, List.nil_append]

theorem matcherName : Gen.matcherName = FV.matcherName := by
  funext p b; simp only [Gen.matcherName, FV.matcherName, isPattern]; rfl

theorem matcherVar (i : Nat) (pattern : Text) (insensitive : Bool) :
    Binding.render (.matcher i pattern insensitive) = Gen.matcherVar i pattern insensitive := by
  simp only [Binding.render, Gen.matcherVar, lf3, matcherName, schemeEscape, List.append_assoc, List.cons_append, List.nil_append]

theorem framedPrinterVar (i : Nat) : Binding.render (.printerD i) = Gen.framedPrinterVar i := by
  simp only [Binding.render, Gen.framedPrinterVar, lf3, List.append_assoc, List.cons_append, List.nil_append]

theorem framedInit : Manager.distInit.vars.map Binding.render = Gen.framedFixedVars
    ∧ Manager.distInit.varIndex = Gen.framedStartIndex ∧ Manager.localInit.varIndex = Gen.plainStartIndex
    ∧ Manager.localInit.vars = [] := by
  refine ⟨?_, rfl, rfl, rfl⟩
  decide

theorem printerName (i : Nat) : lf3 (cl!"print") i = Gen.printerName i := by
  simp only [Gen.printerName, lf3, List.append_assoc, List.cons_append, List.nil_append]

theorem matcherRef (i : Nat) : lf3 (cl!"match") i = Gen.matcherRef i := by
  simp only [Gen.matcherRef, lf3, List.append_assoc, List.cons_append, List.nil_append]

theorem definitionsAndModules (m : Manager) :
    m.definitions = joinWith (if m.distributed then Gen.framedSeparator else Gen.plainSeparator) (m.vars.map Binding.render)
    ∧ m.modules = (if m.distributed then Gen.framedModules else Gen.plainModules) := by
  constructor
  · unfold Manager.definitions; cases m.distributed <;> rfl
  · unfold Manager.modules; cases m.distributed <;> rfl

end FV.TieTables
