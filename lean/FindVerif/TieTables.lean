import FindVerif.Gen.Tables
import FindVerif.Model.Lex.Permission
/-
  Static tie, part 2 (DESIGN.md §0.7): the constant tables of `ast.rs`, `permission.rs` and
  `scheme/target_scheme.rs` as read from the current source by `tools/rs2lean.py`
  (`Gen/Tables.lean`) are the model's.  Every theorem is a case split over the constructors.
-/
namespace FV.TieTables
open FV

theorem sizeMult : Gen.sizeMult = Size.mult := by funext s; cases s <;> rfl
theorem timeSecs : Gen.timeSecs = TimeSpec.secs := by funext t; cases t <;> rfl
theorem fileTypeOctal : Gen.fileTypeOctal = FileType.octal := by funext t; cases t <;> rfl
theorem permValue : Gen.permValue = FV.permValue := rfl
theorem specialLiteral : Gen.specialLiteral = FV.specialLiteral := by funext s; cases s <;> rfl
theorem placeholder : Gen.placeholder = FV.placeholder := by funext f; cases f <;> rfl
theorem snippetBody : Gen.snippetBody = FV.snippetBody := by funext f; cases f <;> rfl

/-- `impl TargetScheme for Test`: 26 arms read from the source (constant texts, comparison fields,
    time fields, matcher templates, helper calls); the 14 remaining arms (the unsupported tests and
    `-xattr-match`) refer to the model and are pinned by their token text. -/
theorem compileTest : Gen.compileTest = FV.compileTest := by
  funext clk t st; cases t <;> rfl

end FV.TieTables
