import FindVerif.Gen.Parser
/-
  The static tie (DESIGN.md §0.7).  `FindVerif/Gen/Parser.lean` is produced on every run by
  `tools/rs2lean.py` from the current `src/find_parser/*.rs`: one Lean combinator per winnow
  combinator, in source order.  This file proves that every definition of the hand-written model
  (the one all property theorems are about) is *equal* to the generated one.  So for the lexer and
  all argument readers the model is not merely sampled against the code: it is the translation of
  what the source says now, up to the translator and the combinator semantics of `Model/Winnow.lean`.

  Where the two differ in shape (the source nests `alt` because winnow's tuples are bounded; the
  model keeps tables as data; two `map`s in a row) the equality is proved through the small lemmas
  below, everything else is `rfl`.
-/
namespace FV.Tie
open FV FV.W

/-! ### Lemmas about the combinators (see also `Gen/Support.lean`: `altNested_flat`) -/

theorem map_mapOrPanic {ι α β γ : Type} (site : Text) (f : α → Option β) (g : β → γ) (p : P ι α) :
    map g (mapOrPanic site f p) = mapOrPanic site (fun a => (f a).map g) p := by
  funext i
  simp only [map, mapOrPanic]
  cases p i with
  | ok a rest => cases hf : f a <;> simp [Option.map, hf]
  | err k c rest => simp
  | panic s => simp

theorem octalEscape_eq :
    (fun a => Option.map FormatSpecial.ascii (if octVal a < 65536 then some (octVal a) else none)) = octalEscape := by
  funext a
  unfold octalEscape
  split <;> rfl

/-! ### prelude.rs -/

theorem parseU32 : Gen.parseU32 = FV.parseU32 := rfl
theorem parseU64 : Gen.parseU64 = FV.parseU64 := rfl

theorem wordChar : (fun c : Char => !(decide (c = ' ') || decide (c = '\t') || decide (c = '\r') || decide (c = '\n') || decide (c = ')')))
    = isWordChar := by
  funext c
  simp only [isWordChar, isBlank, Bool.not_or, ne_eq, decide_not, Bool.and_assoc]

theorem quoteDelimiter : Gen.quoteDelimiter = FV.quoteDelimiter := by
  unfold Gen.quoteDelimiter FV.quoteDelimiter
  rw [wordChar]

theorem parseString : Gen.parseString = FV.parseString := by
  unfold Gen.parseString FV.parseString
  rw [quoteDelimiter]

/-! ### mod.rs: macros and the comparison form -/

theorem unary {α β : Type} : @Gen.unary α β = @FV.unary α β := rfl
theorem binary {α β γ : Type} : @Gen.binary α β γ = @FV.binary α β γ := rfl
theorem compFormat {α : Type} : @Gen.compFormat α = @FV.compFormat α := rfl
theorem parseComparison {α : Type} : @Gen.parseComparison α = @FV.compFormat α := rfl

/-! ### size.rs, timespec.rs, filetype.rs -/

theorem parseSize : Gen.parseSize = FV.parseSize := rfl
theorem parseTime : Gen.parseTime = FV.parseTime := rfl
theorem parseMinDefault : Gen.parseMinDefault = FV.parseTime TimeSpec.minute := rfl
theorem parseDayDefault : Gen.parseDayDefault = FV.parseTime TimeSpec.day := rfl
theorem timeMin : Gen.compFormat Gen.parseMinDefault = FV.timeMin := rfl
theorem timeDay : Gen.compFormat Gen.parseDayDefault = FV.timeDay := rfl
theorem parseFileType : Gen.parseFileType = FV.parseFileType := rfl
theorem parseFileTypes : Gen.parseFileTypes = FV.parseFileTypes := rfl

/-! ### permission.rs -/

theorem octSet : containsChar (cl!"01234567") = isOct := by
  funext c
  simp only [containsChar, isOct, List.any_cons, List.any_nil, Bool.or_false]
  by_cases h0 : '0' ≤ c <;> by_cases h7 : c ≤ '7'
  · -- in range: one of the eight
    have h0' : 48 ≤ c.toNat := h0
    have h7' : c.toNat ≤ 55 := h7
    have hc : c = '0' ∨ c = '1' ∨ c = '2' ∨ c = '3' ∨ c = '4' ∨ c = '5' ∨ c = '6' ∨ c = '7' := by
      have : c.toNat = 48 ∨ c.toNat = 49 ∨ c.toNat = 50 ∨ c.toNat = 51 ∨ c.toNat = 52 ∨ c.toNat = 53
          ∨ c.toNat = 54 ∨ c.toNat = 55 := by omega
      rcases this with h | h | h | h | h | h | h | h
      · exact Or.inl (Char.toNat_inj.mp h)
      · exact Or.inr (Or.inl (Char.toNat_inj.mp h))
      · exact Or.inr (Or.inr (Or.inl (Char.toNat_inj.mp h)))
      · exact Or.inr (Or.inr (Or.inr (Or.inl (Char.toNat_inj.mp h))))
      · exact Or.inr (Or.inr (Or.inr (Or.inr (Or.inl (Char.toNat_inj.mp h)))))
      · exact Or.inr (Or.inr (Or.inr (Or.inr (Or.inr (Or.inl (Char.toNat_inj.mp h))))))
      · exact Or.inr (Or.inr (Or.inr (Or.inr (Or.inr (Or.inr (Or.inl (Char.toNat_inj.mp h)))))))
      · exact Or.inr (Or.inr (Or.inr (Or.inr (Or.inr (Or.inr (Or.inr (Char.toNat_inj.mp h)))))))
    rcases hc with h | h | h | h | h | h | h | h <;> subst h <;> decide
  · have h7' : ¬ c.toNat ≤ 55 := h7
    have : ∀ d : Char, d.toNat ≤ 55 → (d = c) = False := by
      intro d hd; apply eq_false; intro h; subst h; exact h7' hd
    simp [h0, h7, this]
  · have h0' : ¬ 48 ≤ c.toNat := h0
    have : ∀ d : Char, 48 ≤ d.toNat → (d = c) = False := by
      intro d hd; apply eq_false; intro h; subst h; exact h0' hd
    simp [h0, this]
  · have h0' : ¬ 48 ≤ c.toNat := h0
    have : ∀ d : Char, 48 ≤ d.toNat → (d = c) = False := by
      intro d hd; apply eq_false; intro h; subst h; exact h0' hd
    simp [h0, this]

theorem parsePartial : Gen.parsePartial = FV.parsePartial := rfl

theorem parsePermission : Gen.parsePermission = FV.parsePermission := by
  funext pf
  unfold Gen.parsePermission FV.parsePermission
  rw [octSet, parsePartial]
  rfl

theorem parsePermCheck : Gen.parsePermCheck = FV.parsePermCheck := by
  funext pf
  unfold Gen.parsePermCheck FV.parsePermCheck
  rw [parsePermission]

/-! ### format.rs -/

theorem parseSpecial : Gen.parseSpecial = FV.parseSpecial := by
  unfold Gen.parseSpecial FV.parseSpecial
  rw [map_mapOrPanic, octSet, octalEscape_eq]

theorem parseField : Gen.parseField = FV.parseField := by
  unfold Gen.parseField FV.parseField
  rw [Gen.altNested_flat _ (by simp) (by simp)]
  rfl

theorem parseFormat : Gen.parseFormat = FV.parseFormat := by
  funext pf
  unfold Gen.parseFormat FV.parseFormat
  rw [parseField, parseSpecial]
  rfl

/-! ### mod.rs: keyword tables, `token`, `lex` -/

theorem unsupportedOptionArg : Gen.unsupportedOptionArg = FV.unsupportedOptionArg := rfl
theorem parseGlobal : Gen.parseGlobal = FV.parseGlobal := rfl
theorem parsePositional : Gen.parsePositional = FV.parsePositional := rfl

theorem parseAction : Gen.parseAction = FV.parseAction := by
  funext pf
  unfold Gen.parseAction FV.parseAction
  rw [parseString, quoteDelimiter, parseFormat]
  rfl

theorem parseTest : Gen.parseTest = FV.parseTest := by
  funext pf
  unfold Gen.parseTest FV.parseTest
  rw [parseString, quoteDelimiter, parsePermCheck, parseFileTypes, timeMin, timeDay]
  rw [Gen.altNested_flat _ (by simp) (by simp)]
  rfl

theorem token : Gen.token = FV.token := by
  funext pf
  unfold Gen.token FV.token
  rw [parseTest, parseAction, parseGlobal, parsePositional]

theorem lex : Gen.lex = FV.lex := by
  funext pf
  unfold Gen.lex FV.lex
  rw [token]

end FV.Tie

namespace FV.Tie
open FV FV.W

/-! ### precedence.rs (token level).  The source functions are mutually recursive; the translation
    passes the `atom` parser as a parameter (open recursion) and the model closes the knot with
    nesting fuel: one unfolding of the model's `atom` is the translated `atom` body. -/

theorem andLevel : Gen.andLevel = FV.andLevel := rfl
theorem orLevel : Gen.orLevel = FV.orLevel := rfl
theorem listLevel : Gen.listLevel = FV.listLevel := rfl
theorem notP : Gen.notP = FV.notP := rfl
theorem parensP (pf : Profile) (atom : P Token Expr) :
    Gen.parensP pf atom = FV.parensP (FV.listLevel pf atom) := rfl

/-- One unfolding of the model's fuelled `atom` is the translated body of `atom`. -/
theorem atom_step (pf : Profile) (n : Nat) : FV.atom pf (n + 1) = Gen.atomStep pf (FV.atom pf n) := by
  have h1 : ∀ (f g : Token → Option Expr) (p q : Token → Bool), f = g → p = q →
      ∀ rest, alt (mapOrPanic (cl!"precedence.rs:unreachable") f (oneOf p) :: rest)
            = alt (mapOrPanic (cl!"precedence.rs:unreachable") g (oneOf q) :: rest) := by
    intro f g p q hf hp rest; rw [hf, hp]
  unfold Gen.atomStep
  rw [FV.atom]
  apply h1
  · funext t; cases t <;> rfl
  · funext t; cases t <;> rfl

/-- `parser`: the model's top level with nesting fuel `n` is the translated `parser` over the
    model's `atom` at that fuel. -/
theorem parserTop (pf : Profile) (n : Nat) : FV.climbWith pf n = Gen.parserTop pf (FV.atom pf n) := rfl

end FV.Tie

namespace FV.Tie
open FV FV.W

/-! ### `_parse` and `parse`: the entry point -/

theorem updAll_eq (leading : P Char (List GlobalOption)) (emptyTokens : List Token) (replacement : Token)
    (lexer : P Char (List Token)) (climber : List Token → Res Token Expr) (disp : List Ctx → Text → ParseError)
    (o : RunOptions) (gs : List GlobalOption) :
    Gen.parseWith.updAll RunOptions.update o gs = FV.updateAll o gs := by
  induction gs generalizing o with
  | nil => rfl
  | cons g gs ih =>
    simp only [Gen.parseWith.updAll, FV.updateAll]
    cases o.update g with
    | none => rfl
    | some o' => exact ih o'

theorem sweep_eq (o : RunOptions) (ts : List Token) :
    Gen.parseWith.sweep (Token.test Test.true_) RunOptions.update o ts = FV.sweepGlobals o ts := by
  induction ts generalizing o with
  | nil => rfl
  | cons t ts ih =>
    cases t with
    | global g =>
      simp only [Gen.parseWith.sweep, FV.sweepGlobals]
      cases o.update g with
      | none => rfl
      | some o' => simp only [ih]
    | lparen => simp only [Gen.parseWith.sweep, FV.sweepGlobals, ih]
    | rparen => simp only [Gen.parseWith.sweep, FV.sweepGlobals, ih]
    | or => simp only [Gen.parseWith.sweep, FV.sweepGlobals, ih]
    | and => simp only [Gen.parseWith.sweep, FV.sweepGlobals, ih]
    | not => simp only [Gen.parseWith.sweep, FV.sweepGlobals, ih]
    | comma => simp only [Gen.parseWith.sweep, FV.sweepGlobals, ih]
    | test x => simp only [Gen.parseWith.sweep, FV.sweepGlobals, ih]
    | action x => simp only [Gen.parseWith.sweep, FV.sweepGlobals, ih]
    | positional x => simp only [Gen.parseWith.sweep, FV.sweepGlobals, ih]

theorem leadingGlobals : Gen.leadingGlobals = FV.leadingGlobals := by
  funext pf
  unfold Gen.leadingGlobals FV.leadingGlobals
  rw [parseGlobal]

/-- The whole entry point: `parse` as read from the source (statement skeleton of `_parse`/`parse` with
    the translated leading-options parser, lexer and `-true` tokens) is the model's `parse`. -/
theorem parse : Gen.parse = FV.parse := by
  funext pf input
  unfold Gen.parse FV.parse Gen.parseWith
  rw [leadingGlobals, lex]
  simp only [updAll_eq (FV.leadingGlobals pf) [Token.test Test.true_] (Token.test Test.true_) (FV.lex pf) (FV.climb pf) FV.dispatch, sweep_eq]
  rfl

end FV.Tie
