import FindVerif.Model.Ast
/-
  `src/scheme/manager.rs`: `LocalSchemeManager` and `DistributedSchemeManager` as one record
  with a mode flag.  The Rust `HashMap`s are used for lookup only (never iterated, except in
  `printer_map`, whose result is itself a map) and are modelled as association lists.
-/
namespace FV

structure OpenPort where
  port : Nat
  mutex : Nat
  deriving Repr, DecidableEq, Inhabited

/-- One `let*` binding pushed by a manager (`self.vars.push(format!(…))`), kept structured;
    `Binding.render` is the text the Rust code pushes. -/
inductive Binding where
  | stdoutPort (i : Nat)                                   -- (%lf3:port:i (current-output-port))
  | filePort (i : Nat) (filename : Text)                   -- (%lf3:port:i (open-file "…" "w"))
  | mutex (i : Nat)                                        -- (%lf3:mutex:i (make-mutex))
  | printerL (i port mutex : Nat) (term : Option Char)     -- (%lf3:print:i (make-printer port mutex term))
  | printerD (i : Nat)                                     -- (%lf3:print:i (lambda (line) (%lf3:frame:2 line #\xii)))
  | matcher (i : Nat) (pattern : Text) (insensitive : Bool)-- (%lf3:match:i+1 (lambda (%lf3:str:i) (f? "…" %lf3:str:i)))
  | frame                                                  -- the fixed %lf3:frame:2 definition
  deriving Repr, DecidableEq, Inhabited

structure Manager where
  distributed : Bool
  varIndex : Nat
  vars : List Binding
  fini : List Text := []
  defaultPort : Option OpenPort := none
  files : List (Text × OpenPort) := []
  /-- Local mode: `(port, terminator) ↦ index`. -/
  printersL : List ((OpenPort × Option Char) × Nat) := []
  /-- Distributed mode: `Target ↦ index`. -/
  printersD : List (Target × Nat) := []
  matches_ : List ((Text × Bool) × Nat) := []
  deriving Repr, Inhabited

def Manager.localInit : Manager :=
  { distributed := false, varIndex := 0, vars := [] }

def Manager.distInit : Manager :=
  { distributed := true, varIndex := 2, vars := [ .stdoutPort 0, .mutex 1, .frame ] }

def assocGet {κ ν : Type} [DecidableEq κ] (l : List (κ × ν)) (k : κ) : Option ν :=
  match l.find? (fun kv => kv.1 = k) with
  | some kv => some kv.2
  | none => none

/-- `char::is_control` (Unicode category Cc). -/
def isControl (c : Char) : Bool := c.toNat < 32 || (127 ≤ c.toNat && c.toNat < 160)

/-- `scheme_escape`. -/
def schemeEscape : Text → Text
  | [] => []
  | c :: cs =>
    (if c = '"' then cl!"\\\""
     else if c = '\\' then cl!"\\\\"
     else if isControl c then cl!"\\x" ++ natToHex c.toNat ++ cl!";"
     else [c]) ++ schemeEscape cs

def isPattern (s : Text) : Bool := containsChar s '?' || containsChar s '*' || containsChar s '['

/-- `terminator_escape` (`value as u8`: truncation to the low byte). -/
def terminatorEscape : Option Char → Text
  | none => cl!"#f"
  | some c => cl!"#\\x" ++ natToHex02 (c.toNat % 256)

def matcherName (pattern : Text) (insensitive : Bool) : Text :=
  match isPattern pattern, insensitive with
  | true, true => cl!"fnmatch-ci"
  | false, true => cl!"streq-ci"
  | true, false => cl!"fnmatch"
  | false, false => cl!"streq"

def lf3 (kind : Text) (n : Nat) : Text := cl!"%lf3:" ++ kind ++ cl!":" ++ natToDec n

/-- `register_str_match` (same code in both managers). -/
def Manager.registerMatch (m : Manager) (pattern : Text) (insensitive : Bool) : Nat × Manager :=
  match assocGet m.matches_ (pattern, insensitive) with
  | some id => (id, m)
  | none =>
    let i := m.varIndex
    (i + 1, { m with vars := m.vars ++ [.matcher i pattern insensitive], varIndex := i + 2,
                     matches_ := m.matches_ ++ [((pattern, insensitive), i + 1)] })

/-- `get_matcher`. -/
def Manager.getMatcher (m : Manager) (pattern : Text) (insensitive : Bool) : Text × Manager :=
  let (id, m') := m.registerMatch pattern insensitive
  (lf3 (cl!"match") id, m')

/-- Local `init_default_port`. -/
def Manager.initDefaultPort (m : Manager) : OpenPort × Manager :=
  match m.defaultPort with
  | some p => (p, m)
  | none =>
    let i := m.varIndex
    let p : OpenPort := { port := i, mutex := i + 1 }
    (p, { m with vars := m.vars ++ [ .stdoutPort i, .mutex (i + 1) ],
                 defaultPort := some p, varIndex := i + 2 })

/-- Local `init_file_port`. -/
def Manager.initFilePort (m : Manager) (filename : Text) : OpenPort × Manager :=
  match assocGet m.files filename with
  | some p => (p, m)
  | none =>
    let i := m.varIndex
    let p : OpenPort := { port := i, mutex := i + 1 }
    (p, { m with vars := m.vars ++ [ .filePort i filename, .mutex (i + 1) ],
                 fini := m.fini ++ [cl!"(close-port " ++ lf3 (cl!"port") i ++ cl!")"],
                 files := m.files ++ [(filename, p)], varIndex := i + 2 })

/-- Local `register_printer`. -/
def Manager.registerPrinterL (m : Manager) (port : OpenPort) (term : Option Char) : Nat × Manager :=
  match assocGet m.printersL (port, term) with
  | some id => (id, m)
  | none =>
    let i := m.varIndex
    (i, { m with vars := m.vars ++ [.printerL i port.port port.mutex term], printersL := m.printersL ++ [((port, term), i)], varIndex := i + 1 })

/-- Distributed `register_printer`. -/
def Manager.registerPrinterD (m : Manager) (t : Target) : Nat × Manager :=
  match assocGet m.printersD t with
  | some id => (id, m)
  | none =>
    let i := m.varIndex
    (i, { m with vars := m.vars ++ [.printerD i], printersD := m.printersD ++ [(t, i)], varIndex := i + 1 })

/-- `get_printer`. -/
def Manager.getPrinter (m : Manager) (term : Option Char) : Text × Manager :=
  if m.distributed then
    let (i, m') := m.registerPrinterD (.stdout term)
    (lf3 (cl!"print") i, m')
  else
    let (p, m1) := m.initDefaultPort
    let (i, m2) := m1.registerPrinterL p term
    (lf3 (cl!"print") i, m2)

/-- `get_file_printer`. -/
def Manager.getFilePrinter (m : Manager) (filename : Text) (term : Option Char) : Text × Manager :=
  if m.distributed then
    let (i, m') := m.registerPrinterD (.file filename term)
    (lf3 (cl!"print") i, m')
  else
    let (p, m1) := m.initFilePort filename
    let (i, m2) := m1.registerPrinterL p term
    (lf3 (cl!"print") i, m2)

def joinWith (sep : Text) : List Text → Text
  | [] => []
  | [x] => x
  | x :: xs => x ++ sep ++ joinWith sep xs

/-- The text pushed onto `vars` for a binding. -/
def Binding.render : Binding → Text
  | .stdoutPort i => cl!"(" ++ lf3 (cl!"port") i ++ cl!" (current-output-port))"
  | .filePort i filename =>
    cl!"(" ++ lf3 (cl!"port") i ++ cl!" (open-file \"" ++ schemeEscape filename ++ cl!"\" \"w\"))"
  | .mutex i => cl!"(" ++ lf3 (cl!"mutex") i ++ cl!" (make-mutex))"
  | .printerL i prt mtx term =>
    cl!"(" ++ lf3 (cl!"print") i ++ cl!" (make-printer " ++ lf3 (cl!"port") prt ++ cl!" "
      ++ lf3 (cl!"mutex") mtx ++ cl!" " ++ terminatorEscape term ++ cl!"))"
  | .printerD i =>
    cl!"(" ++ lf3 (cl!"print") i ++ cl!" (lambda (line) (%lf3:frame:2 line #\\x" ++ natToHex02 i ++ cl!")))"
  | .matcher i pattern insensitive =>
    cl!"(" ++ lf3 (cl!"match") (i + 1) ++ cl!" (lambda (" ++ lf3 (cl!"str") i ++ cl!") ("
      ++ matcherName pattern insensitive ++ cl!"? \"" ++ schemeEscape pattern ++ cl!"\" "
      ++ lf3 (cl!"str") i ++ cl!")))"
  | .frame =>
    cl!"(%lf3:frame:2 (lambda (s d) (with-mutex %lf3:mutex:1 (display s %lf3:port:0) (display (string #\\x1e d) %lf3:port:0))))"

def Manager.definitions (m : Manager) : Text :=
  if m.distributed then joinWith (cl!"\n       ") (m.vars.map Binding.render)
  else joinWith (cl!" ") (m.vars.map Binding.render)

/-- `init` is never pushed to by either manager. -/
def Manager.initialization (_ : Manager) : Text := cl!"#t"

def Manager.terminate (m : Manager) : Text :=
  if m.fini.isEmpty then cl!"#t" else joinWith (cl!" ") m.fini

def Manager.modules (m : Manager) : Text := if m.distributed then cl!" (ice-9 threads)" else []

/-- `printer_map`: as an association list `index ↦ target` (compared sorted by index). -/
def Manager.printerMap (m : Manager) : Option (List (Nat × Target)) :=
  if m.distributed then some (m.printersD.map fun kv => (kv.2, kv.1)) else none

end FV
