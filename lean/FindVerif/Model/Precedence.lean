import FindVerif.Model.Winnow
import FindVerif.Model.Ast
/-
  `src/find_parser/precedence.rs`: the precedence climber over the token slice.
  `atom` recurses through `not` and `parens`; each such call happens after one token has
  been consumed, so a nesting fuel of `tokens.length + 1` is never exhausted (proved in
  `Proofs/Climb`).  The `repeat` loops carry their own local fuel (see `W.repeatFold`).
-/
namespace FV
open W

def isPrimTok : Token → Bool
  | .test _ | .action _ | .global _ | .positional _ => true
  | _ => false

def primExpr : Token → Option Expr
  | .test v => some (.test v)
  | .action v => some (.action v)
  | .global v => some (.global v)
  | .positional v => some (.positional v)
  | _ => none

def tokIs (t : Token) : Token → Bool := fun u => u = t

/-- `init ← sub; repeat(0.., body).fold(init, mk)`. -/
def foldLevel (pf : Profile) (sub body : P Token Expr) (mk : Expr → Expr → Expr) : P Token Expr :=
  fun i =>
    match sub i with
    | .ok init r => repeatFold pf body mk (r.length + 1) init r
    | e => e

def andBody (atom : P Token Expr) : P Token Expr :=
  alt [ preceded (oneOf (tokIs .and)) (context (.expected (cl!"missing_and_clause")) (cutErr atom)),
        atom ]

def andLevel (pf : Profile) (atom : P Token Expr) : P Token Expr :=
  foldLevel pf atom (andBody atom) Expr.and

def orBody (pf : Profile) (atom : P Token Expr) : P Token Expr :=
  preceded (oneOf (tokIs .or)) (context (.expected (cl!"missing_or_clause")) (cutErr (andLevel pf atom)))

def orLevel (pf : Profile) (atom : P Token Expr) : P Token Expr :=
  foldLevel pf (andLevel pf atom) (orBody pf atom) Expr.or

def listBody (pf : Profile) (atom : P Token Expr) : P Token Expr :=
  preceded (oneOf (tokIs .comma)) (context (.expected (cl!"missing_list_clause")) (cutErr (orLevel pf atom)))

/-- `list`, given the `atom` parser. -/
def listLevel (pf : Profile) (atom : P Token Expr) : P Token Expr :=
  foldLevel pf (orLevel pf atom) (listBody pf atom) Expr.list

def notP (atom : P Token Expr) : P Token Expr :=
  map Expr.not (preceded (oneOf (tokIs .not)) (context (.expected (cl!"missing_not_clause")) (cutErr atom)))

def parensP (list : P Token Expr) : P Token Expr :=
  context (.label (cl!"parens"))
    (delimited (oneOf (tokIs .lparen))
      (context (.expected (cl!"missing_expression")) (cutErr list))
      (context (.expected (cl!"missing_closing_parenthesis")) (cutErr (oneOf (tokIs .rparen)))))

/-- `atom` with nesting fuel. -/
def atom (pf : Profile) : Nat → P Token Expr
  | 0 => fun _ => .panic (cl!"fuel")
  | n + 1 =>
    alt [ mapOrPanic (cl!"precedence.rs:unreachable") primExpr (oneOf isPrimTok),
          notP (atom pf n),
          parensP (listLevel pf (atom pf n)),
          preceded any (context (.expected (cl!"unexpected_token")) fail) ]

def list (pf : Profile) (n : Nat) : P Token Expr := listLevel pf (atom pf n)

/-- `parser`: `repeat_till(1.., list, eof)` then `out.first().unwrap()`. -/
def climbWith (pf : Profile) (n : Nat) : P Token Expr :=
  mapOrPanic (cl!"precedence.rs:first-unwrap") (fun (x : List Expr × Unit) => x.1.head?)
    (context (.label (cl!"grammar")) (repeatTill1 pf (list pf n) eof))

def climb (pf : Profile) (ts : List Token) : Res Token Expr := climbWith pf (ts.length + 1) ts

end FV
