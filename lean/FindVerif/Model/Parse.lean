import FindVerif.Model.Lex.Token
import FindVerif.Model.Precedence
/- `_parse`, `parse` (`src/find_parser/mod.rs`) and `ParserError::dispatch` (`error.rs`). -/
namespace FV
open W

inductive ParseError where
  | invalidToken (w : Text)
  | invalidTestArgument (t w d : Text)
  | invalidTestUnknown (t w : Text)
  | invalidActionArgument (a w d : Text)
  | invalidActionUnknown (a w : Text)
  | invalidGlobalArgument (g w d : Text)
  | invalidGlobalUnknown (g w : Text)
  deriving Repr, DecidableEq, Inhabited

inductive ParseOut where
  | ok (o : RunOptions) (e : Expr)
  | error (e : ParseError)
  | panic (site : Text)
  deriving Repr, DecidableEq, Inhabited

/-- `explain`. -/
def explainTable : List (Text × Text) :=
  [ (cl!"file_and_format", cl!"Expected a filename and format string"),
    (cl!"attribute_and_value", cl!"Expected an attribute name and a value to compare"),
    (cl!"invalid_comparison", cl!"Invalid comparison operator"),
    (cl!"invalid_format_specifier", cl!"Found an invalid format specifier"),
    (cl!"invalid_permission_format", cl!"Invalid permission format"),
    (cl!"invalid_size_specifier", cl!"Invalid size specifier"),
    (cl!"invalid_type_specifier", cl!"Found an invalid type specifier"),
    (cl!"invalid_time_specifier", cl!"Found an invalid time specifier"),
    (cl!"symbolic_permission_level", cl!"Found invalid symbolic permission level"),
    (cl!"symbolic_permission_symbol", cl!"Enountered an invalid permission symbol"),
    (cl!"unsigned_integer", cl!"Expected an unsigned integer"),
    (cl!"string", cl!"Expected a string"),
    (cl!"unsupported_option", cl!"This option is not supported by LiPE") ]

def explain (d : Text) : Text :=
  match explainTable.find? (fun kv => kv.1 = d) with
  | some kv => kv.2
  | none => d

structure SyntaxContext where
  test : Option Text := none
  action : Option Text := none
  global : Option Text := none
  description : Option Text := none
  deriving Repr, DecidableEq, Inhabited

def expecting (o : Option Text) : Bool :=
  match o with
  | some t => t.isEmpty
  | none => false

/-- One step of the fold in `SyntaxContext::new` (match arms in source order). -/
def SyntaxContext.step (acc : SyntaxContext) (c : Ctx) : SyntaxContext :=
  match c with
  | .label s =>
    if s = cl!"test" then { acc with test := some [] }
    else if expecting acc.test then { acc with test := some s }
    else if s = cl!"action" then { acc with action := some [] }
    else if expecting acc.action then { acc with action := some s }
    else if s = cl!"global_option" then { acc with global := some [] }
    else if expecting acc.global then { acc with global := some s }
    else acc
  | .expected d => { acc with description := some d }

/-- `ParserError::dispatch`: `ctx` is in push order (inner first) and is reversed first;
    `rest` is where the failing parser left the input. -/
def dispatch (ctx : List Ctx) (rest : Text) : ParseError :=
  let sc := ctx.reverse.foldl SyntaxContext.step {}
  let next : Text := match parseString rest with
    | .ok w _ => w
    | _ => []
  match sc.test, sc.action, sc.global, sc.description with
  | some t, _, _, some d => .invalidTestArgument t next (explain d)
  | some t, _, _, none => .invalidTestUnknown t next
  | _, some a, _, some d => .invalidActionArgument a next (explain d)
  | _, some a, _, none => .invalidActionUnknown a next
  | _, _, some g, some d => .invalidGlobalArgument g next (explain d)
  | _, _, some g, none => .invalidGlobalUnknown g next
  | _, _, _, _ => .invalidToken next

def updateAll (o : RunOptions) : List GlobalOption → Option RunOptions
  | [] => some o
  | g :: gs => match o.update g with
    | some o' => updateAll o' gs
    | none => none

/-- Misplaced global options: registered in order and replaced by `-true`. -/
def sweepGlobals : RunOptions → List Token → Option (RunOptions × List Token)
  | o, [] => some (o, [])
  | o, .global g :: ts =>
    match o.update g with
    | some o' => (sweepGlobals o' ts).map fun x => (x.1, Token.test Test.true_ :: x.2)
    | none => none
  | o, t :: ts => (sweepGlobals o ts).map fun x => (x.1, t :: x.2)

def leadingGlobals (pf : Profile) : P Char (List GlobalOption) :=
  preceded multispace0 (repeat0 pf (terminated parseGlobal multispace0))

/-- `parse` = `_parse` + `dispatch`. -/
def parse (pf : Profile) (input : Text) : ParseOut :=
  match leadingGlobals pf input with
  | .panic s => .panic s
  | .err _ ctx rest => .error (dispatch ctx rest)
  | .ok gs rest =>
    match updateAll {} gs with
    | none => .panic (cl!"lib.rs:unreachable")
    | some globals =>
      let lexed : Res Char (List Token) :=
        if rest.isEmpty then .ok [Token.test Test.true_] [] else lex pf rest
      match lexed with
      | .panic s => .panic s
      | .err _ ctx rest' => .error (dispatch ctx rest')
      | .ok tokens rest' =>
        match sweepGlobals globals tokens with
        | none => .panic (cl!"lib.rs:unreachable")
        | some (globals', tokens') =>
          match climb pf tokens' with
          | .panic s => .panic s
          | .err _ ctx _ => .error (dispatch ctx rest')
          | .ok e _ => .ok globals' e

end FV
