import FindVerif.Model.Manager
/-
  `src/scheme/target_scheme.rs` and `src/scheme/mod.rs`: code generation.
  The Rust code appends to a `String` buffer and mutates the manager; here every step
  returns the emitted text and the new state.  `clk i` is the `i`-th `SystemTime::now()`
  reading (one per time test, in traversal order).
-/
namespace FV

inductive CompileError where
  | unsupportedTest (s : Text)
  | unsupportedAction (s : Text)
  | unsupportedOption (s : Text)
  | unsupportedFormat (s : Text)
  deriving Repr, DecidableEq, Inhabited

inductive CRes (α : Type) where
  | ok (a : α)
  | err (e : CompileError)
  | panic (site : Text)
  deriving Repr, Inhabited

structure CState where
  mgr : Manager
  reads : Nat := 0
  deriving Repr, Inhabited

def nat (n : Nat) : Text := natToDec n

/-- `format_cmp!(cmp, target)`. -/
def formatCmp (c : Comparison Nat) (target : Text) : Text :=
  match c with
  | .gt n => cl!"(> (" ++ target ++ cl!") " ++ nat n ++ cl!")"
  | .lt n => cl!"(< (" ++ target ++ cl!") " ++ nat n ++ cl!")"
  | .eq n => cl!"(= (" ++ target ++ cl!") " ++ nat n ++ cl!")"

/-- `format_cmp!(cmp, lhs, rhs)`. -/
def formatCmp2 {α : Type} (c : Comparison α) (lhs rhs : α → Text) : Text :=
  match c with
  | .gt n => cl!"(> (" ++ lhs n ++ cl!") " ++ rhs n ++ cl!")"
  | .lt n => cl!"(< (" ++ lhs n ++ cl!") " ++ rhs n ++ cl!")"
  | .eq n => cl!"(= (" ++ lhs n ++ cl!") " ++ rhs n ++ cl!")"

/-- `size_matching`. -/
def sizeMatching (s : Size) : Text :=
  match s with
  | .byte _ => cl!"size"
  | _ => cl!"round-up-power-of-2 (size) " ++ nat s.mult

/-- `exact_byte_size` (u128 product; cannot overflow for u64 operands). -/
def exactByteSize (s : Size) : Nat := s.count * s.mult

def compileSizeComp (c : Comparison Size) : Text :=
  formatCmp2 c sizeMatching (fun s => nat (exactByteSize s))

def compileTimeComp (secs : Nat) (field : Text) (c : Comparison TimeSpec) : Text :=
  formatCmp2 c (fun t => cl!"quotient (- " ++ nat secs ++ cl!" (" ++ field ++ cl!")) " ++ nat t.secs)
    (fun t => nat t.count)

def compileTypeList (l : List FileType) : Text :=
  let comps := l.map fun tp => cl!"(= (logand (mode) " ++ nat S_IFMT ++ cl!") " ++ nat tp.octal ++ cl!")"
  match comps with
  | [c] => c
  | _ => cl!"(or " ++ joinWith (cl!" ") comps ++ cl!")"

def compilePermCheck (p : PermCheck) : Text :=
  match p with
  | .equal perm => cl!"(= (logand (mode) " ++ nat 0o7777 ++ cl!") " ++ nat perm ++ cl!")"
  | .atLeast perm => cl!"(= (logand (mode) " ++ nat perm ++ cl!") " ++ nat perm ++ cl!")"
  | .any perm => cl!"(not (= (logand (mode) " ++ nat perm ++ cl!") 0))"

def replaceTilde : Text → Text
  | [] => []
  | c :: cs => (if c = '~' then cl!"~~" else [c]) ++ replaceTilde cs

/-- `template_escape`. -/
def templateEscape (s : Text) : Text := replaceTilde (schemeEscape s)

def FormatField.debugName : FormatField → Text
  | .percent => cl!"Percent" | .access => cl!"Access" | .diskSizeBlocks => cl!"DiskSizeBlocks"
  | .change => cl!"Change" | .depth => cl!"Depth" | .deviceNumber => cl!"DeviceNumber"
  | .basename => cl!"Basename" | .fsType => cl!"FsType" | .group => cl!"Group" | .groupId => cl!"GroupId"
  | .parents => cl!"Parents" | .startingPoint => cl!"StartingPoint" | .inodeDecimal => cl!"InodeDecimal"
  | .diskSizeKilos => cl!"DiskSizeKilos" | .symbolicTarget => cl!"SymbolicTarget"
  | .permissionsOctal => cl!"PermissionsOctal" | .permissionsSymbolic => cl!"PermissionsSymbolic"
  | .hardlinks => cl!"Hardlinks" | .name => cl!"Name"
  | .nameWithoutStartingPoint => cl!"NameWithoutStartingPoint" | .diskSizeBytes => cl!"DiskSizeBytes"
  | .sparseness => cl!"Sparseness" | .modify => cl!"Modify" | .user => cl!"User" | .userId => cl!"UserId"
  | .type => cl!"Type" | .typeSymlink => cl!"TypeSymlink" | .securityContext => cl!"SecurityContext"
  | .fileId => cl!"FileId" | .projectId => cl!"ProjectId" | .mirrorCount => cl!"MirrorCount"
  | .stripeCount => cl!"StripeCount" | .stripeSize => cl!"StripeSize"
  | .accessFormatted _ => cl!"AccessFormatted" | .changeFormatted _ => cl!"ChangeFormatted"
  | .modifyFormatted _ => cl!"ModifyFormatted" | .xattr _ => cl!"XAttr"

def FormatField.unsupported : FormatField → Bool
  | .depth | .deviceNumber | .fsType | .symbolicTarget | .permissionsSymbolic | .typeSymlink
  | .securityContext => true
  | _ => false

/-- `literal(special)`; `none` = `UnsupportedFormat` (`\c`). -/
def specialLiteral : FormatSpecial → Option Text
  | .alarm => some (cl!"\\a")
  | .ascii v => some (templateEscape [Char.ofNat v])
  | .backslash => some (cl!"\\\\")
  | .backspace => some (cl!"\\b")
  | .carriageReturn => some (cl!"\\r")
  | .clear => none
  | .form => some (cl!"\\f")
  | .newline => some (cl!"\\n")
  | .null => some (cl!"\\0")
  | .tabHorizontal => some (cl!"\\t")
  | .tabVertical => some (cl!"\\v")

/-- `placeholder(field)`; `none` = `UnsupportedFormat`. -/
def placeholder (f : FormatField) : Option Text :=
  if f.unsupported then none else
  match f with
  | .access | .basename | .change | .fileId | .group | .modify | .name | .nameWithoutStartingPoint
  | .parents | .startingPoint | .type | .user | .xattr _ => some (cl!"~a")
  | .diskSizeBlocks | .diskSizeBytes | .diskSizeKilos | .groupId | .hardlinks | .inodeDecimal
  | .mirrorCount | .projectId | .stripeCount | .stripeSize | .userId => some (cl!"~d")
  | .permissionsOctal => some (cl!"~o")
  | .sparseness => some (cl!"~f")
  | .percent => some (cl!"%")
  | .accessFormatted c | .changeFormatted c | .modifyFormatted c =>
    if c = '@' then some (cl!"~d") else some (cl!"~a")
  | _ => none

def strftimeSnippet (c : Char) (field : Text) : Text :=
  if c = '@' then field
  else cl!"strftime \"%" ++ schemeEscape [c] ++ cl!"\" (localtime (" ++ field ++ cl!"))"

/-- `snippet(field)`: the text between the parentheses (`""` for `%%`); `none` = unsupported. -/
def snippetBody (f : FormatField) : Option Text :=
  if f.unsupported then none else
  match f with
  | .percent => some []
  | .access => some (cl!"atime") | .change => some (cl!"ctime") | .modify => some (cl!"mtime")
  | .diskSizeBlocks => some (cl!"blocks") | .basename => some (cl!"name") | .group => some (cl!"group")
  | .groupId => some (cl!"gid") | .parents => some (cl!"call-with-relative-path dirname")
  | .startingPoint => some (cl!"lipe-scan-client-mount-path") | .inodeDecimal => some (cl!"ino")
  | .diskSizeKilos => some (cl!"quotient (+ (blocks) 1) 2")
  | .permissionsOctal => some (cl!"logand (mode) #o07777") | .hardlinks => some (cl!"nlink")
  | .name => some (cl!"absolute-path") | .nameWithoutStartingPoint => some (cl!"relative-path")
  | .diskSizeBytes => some (cl!"size") | .sparseness => some (cl!"/ (* 512 (blocks)) (size)")
  | .user => some (cl!"user") | .userId => some (cl!"uid") | .type => some (cl!"type->char (type)")
  | .fileId => some (cl!"file-fid") | .stripeSize => some (cl!"lov-stripe-size")
  | .stripeCount => some (cl!"lov-stripe-count") | .mirrorCount => some (cl!"lov-mirror-count")
  | .projectId => some (cl!"projid")
  | .accessFormatted c => some (strftimeSnippet c (cl!"atime"))
  | .changeFormatted c => some (strftimeSnippet c (cl!"ctime"))
  | .modifyFormatted c => some (strftimeSnippet c (cl!"mtime"))
  | .xattr a => some (cl!"or (xattr-ref-string \"" ++ schemeEscape a ++ cl!"\") \"\"")
  | _ => none

/-- Template piece of one element. -/
def elementTemplate : FormatElement → Except CompileError Text
  | .literal s => .ok (templateEscape s)
  | .field f => match placeholder f with
    | some t => .ok t
    | none => .error (.unsupportedFormat f.debugName)
  | .special v => match specialLiteral v with
    | some t => .ok t
    | none => .error (.unsupportedFormat (cl!"Clear"))

def templateOf : List FormatElement → Except CompileError Text
  | [] => .ok []
  | e :: es => match elementTemplate e with
    | .error x => .error x
    | .ok t => match templateOf es with
      | .error x => .error x
      | .ok ts => .ok (t ++ ts)

/-- Argument list items (`filter_map` over the elements). -/
def itemsOf (es : List FormatElement) : List Text :=
  es.filterMap fun e => match e with
    | .field f => match snippetBody f with
      | some b => if b.isEmpty then none else some (cl!"(" ++ b ++ cl!")")
      | none => none
    | _ => none

/-- `impl TargetScheme for Vec<FormatElement>`. -/
def compileFormat (es : List FormatElement) : Except CompileError Text :=
  match templateOf es with
  | .error x => .error x
  | .ok template => .ok (cl!"(format #f \"" ++ template ++ cl!"\" " ++ joinWith (cl!" ") (itemsOf es) ++ cl!")")

/-- Rust `{:?}` of a `String` is needed for the `Unsupported*` payloads (derived `Debug`). -/
def debugEscapeChar (c : Char) : Text :=
  if c = '"' then cl!"\\\"" else if c = '\\' then cl!"\\\\" else if c = '\n' then cl!"\\n"
  else if c = '\r' then cl!"\\r" else if c = '\t' then cl!"\\t" else if c = '\x00' then cl!"\\0"
  else [c]

def debugStr (s : Text) : Text := cl!"\"" ++ (s.flatMap debugEscapeChar) ++ cl!"\""

/-- `format!("{self:?}")` for the unsupported tests. -/
def Test.unsupportedName : Test → Option Text
  | .accessNewer s => some (cl!"AccessNewer(" ++ debugStr s ++ cl!")")
  | .changeNewer s => some (cl!"ChangeNewer(" ++ debugStr s ++ cl!")")
  | .fsType s => some (cl!"FsType(" ++ debugStr s ++ cl!")")
  | .group s => some (cl!"Group(" ++ debugStr s ++ cl!")")
  | .insensitiveLinkName s => some (cl!"InsensitiveLinkName(" ++ debugStr s ++ cl!")")
  | .insensitiveRegex s => some (cl!"InsensitiveRegex(" ++ debugStr s ++ cl!")")
  | .linkName s => some (cl!"LinkName(" ++ debugStr s ++ cl!")")
  | .modifyNewer s => some (cl!"ModifyNewer(" ++ debugStr s ++ cl!")")
  | .noGroup => some (cl!"NoGroup")
  | .noUser => some (cl!"NoUser")
  | .regex s => some (cl!"Regex(" ++ debugStr s ++ cl!")")
  | .samefile s => some (cl!"Samefile(" ++ debugStr s ++ cl!")")
  | .user s => some (cl!"User(" ++ debugStr s ++ cl!")")
  | _ => none

def isOffending (c : Char) : Bool := containsChar (cl!"*?['") c

/-- `impl TargetScheme for Test`. -/
def compileTest (clk : Nat → Nat) (t : Test) (st : CState) : CRes (Text × CState) :=
  let timeT (field : Text) (c : Comparison TimeSpec) : CRes (Text × CState) :=
    .ok (compileTimeComp (clk st.reads) field c, { st with reads := st.reads + 1 })
  let matchT (pre : Text) (s : Text) (ci : Bool) : CRes (Text × CState) :=
    let (name, m) := st.mgr.getMatcher s ci
    .ok (cl!"(" ++ pre ++ cl!" " ++ name ++ cl!")", { st with mgr := m })
  match t with
  | .accessTime c => timeT (cl!"atime") c
  | .changeTime c => timeT (cl!"ctime") c
  | .modifyTime c => timeT (cl!"mtime") c
  | .empty => .ok (cl!"(empty)", st)
  | .executable => .ok (cl!"(executable)", st)
  | .false_ => .ok (cl!"#f", st)
  | .groupId c => .ok (formatCmp c (cl!"gid"), st)
  | .inodeNumber c => .ok (formatCmp c (cl!"ino"), st)
  | .insensitiveName s => matchT (cl!"call-with-name") s true
  | .insensitivePath s => matchT (cl!"call-with-relative-path") s true
  | .links c => .ok (formatCmp c (cl!"nlink"), st)
  | .mirrorCount c => .ok (formatCmp c (cl!"lov-mirror-count"), st)
  | .name s => matchT (cl!"call-with-name") s false
  | .path s => matchT (cl!"call-with-relative-path") s false
  | .perm p => .ok (compilePermCheck p, st)
  | .pool s => .ok (cl!"(member \"" ++ schemeEscape s ++ cl!"\" (lov-pools))", st)
  | .readable => .ok (cl!"(readable)", st)
  | .size c => .ok (compileSizeComp c, st)
  | .stripeCount c => .ok (formatCmp c (cl!"lov-stripe-count"), st)
  | .true_ => .ok (cl!"#t", st)
  | .type l => .ok (compileTypeList l, st)
  | .userId c => .ok (formatCmp c (cl!"uid"), st)
  | .writable => .ok (cl!"(writable)", st)
  | .xattr f => .ok (cl!"(xattr? \"" ++ schemeEscape f ++ cl!"\")", st)
  | .xattrMatch f v =>
    if !(f.any isOffending || v.any isOffending) then
      .ok (cl!"(equal? (xattr-ref-string \"" ++ schemeEscape f ++ cl!"\") \"" ++ schemeEscape v ++ cl!"\")", st)
    else
      .ok (cl!"(xattr-match? \"" ++ schemeEscape f ++ cl!"\" \"" ++ schemeEscape v ++ cl!"\")", st)
  | other => match other.unsupportedName with
    | some n => .err (.unsupportedTest n)
    | none => .panic (cl!"model:unsupportedName")

def fmtDebug : List FormatElement → Text := fun _ => cl!"[..]"

/-- `impl TargetScheme for Action`. -/
def compileAction (a : Action) (st : CState) : CRes (Text × CState) :=
  let viaPath (r : Text × Manager) : CRes (Text × CState) :=
    .ok (cl!"(call-with-relative-path " ++ r.1 ++ cl!")", { st with mgr := r.2 })
  let viaFormat (r : Text × Manager) (es : List FormatElement) : CRes (Text × CState) :=
    match compileFormat es with
    | .error x => .err x
    | .ok f => .ok (cl!"(" ++ r.1 ++ cl!" " ++ f ++ cl!")", { st with mgr := r.2 })
  match a with
  | .defaultPrint => .ok (cl!"(print-relative-path)", st)
  | .print => viaPath (st.mgr.getPrinter (some '\n'))
  | .printNull => viaPath (st.mgr.getPrinter (some '\x00'))
  | .filePrint d => viaPath (st.mgr.getFilePrinter d (some '\n'))
  | .filePrintNull d => viaPath (st.mgr.getFilePrinter d (some '\x00'))
  | .printFormatted es => viaFormat (st.mgr.getPrinter none) es
  | .filePrintFormatted d es => viaFormat (st.mgr.getFilePrinter d none) es
  | .printFid => .ok (cl!"(print-file-fid)", st)
  | .quit => .ok (cl!"(lipe-scan-break 0)", st)
  | .prune => .err (.unsupportedAction (cl!"Prune"))
  | .list => .err (.unsupportedAction (cl!"List"))
  | .fileList s => .err (.unsupportedAction (cl!"FileList(" ++ debugStr s ++ cl!")"))

/-- `impl TargetScheme for Expression` / `Operator`. -/
def compileExpr (clk : Nat → Nat) : Expr → CState → CRes (Text × CState)
  | .test t, st => compileTest clk t st
  | .action a, st => compileAction a st
  | .positional _, _ => .err (.unsupportedOption (cl!"XDev"))
  | .global _, _ => .panic (cl!"target_scheme.rs:unreachable-global")
  | .prec _, _ => .panic (cl!"target_scheme.rs:unreachable-precedence")
  | .not e, st =>
    match compileExpr clk e st with
    | .ok (t, st') => .ok (cl!"(not " ++ t ++ cl!")", st')
    | r => r
  | .and a b, st => bin (cl!"(and ") (compileExpr clk a st) (compileExpr clk b)
  | .list a b, st => bin (cl!"(and ") (compileExpr clk a st) (compileExpr clk b)
  | .or a b, st => bin (cl!"(or ") (compileExpr clk a st) (compileExpr clk b)
where
  bin (hd : Text) (l : CRes (Text × CState)) (r : CState → CRes (Text × CState)) : CRes (Text × CState) :=
    match l with
    | .ok (tl, st1) =>
      match r st1 with
      | .ok (tr, st2) => .ok (hd ++ tl ++ cl!" " ++ tr ++ cl!")", st2)
      | e => e
    | e => e

structure Compiled where
  policyBody : Text
  options : Text
  modules : Text
  definitions : Text
  initialization : Text
  terminate : Text
  ioMap : Option (List (Nat × Target))
  deriving Repr, Inhabited

/-- `compile(exp, options)`. -/
def compile (clk : Nat → Nat) (e : Expr) (o : RunOptions) : CRes Compiled :=
  let mgr := if e.complexFrames then Manager.distInit else Manager.localInit
  let target := if !e.hasAction then Expr.and e (.action .defaultPrint) else e
  match compileExpr clk target { mgr := mgr } with
  | .err x => .err x
  | .panic s => .panic s
  | .ok (body, st) =>
    .ok { policyBody := body,
          options := match o.threads with
            | some c => nat c
            | none => cl!"(lipe-getopt-thread-count)",
          modules := st.mgr.modules,
          definitions := st.mgr.definitions,
          initialization := st.mgr.initialization,
          terminate := st.mgr.terminate,
          ioMap := st.mgr.printerMap }

/-- Text before the opening quote of the device string in `CompiledExpression::scheme`. -/
def Compiled.prefix_ (c : Compiled) : Text :=
  cl!"(use-modules (lipe) (lipe find)" ++ c.modules ++ cl!")\n\n(let* (" ++ c.definitions
  ++ cl!")\n  (dynamic-wind\n    (lambda () " ++ c.initialization
  ++ cl!")\n    (lambda () (lipe-scan\n        "

/-- Text after the closing quote of the device string. -/
def Compiled.suffix_ (c : Compiled) : Text :=
  cl!"\n        (lipe-getopt-client-mount-path)\n        (lambda () " ++ c.policyBody
  ++ cl!")\n        (lipe-getopt-required-attrs)\n        " ++ c.options
  ++ cl!"))\n    (lambda () " ++ c.terminate ++ cl!")))"

/-- `CompiledExpression::scheme(mdt)`: the `format!` template with the escaped device path. -/
def Compiled.scheme (c : Compiled) (mdt : Text) : Text :=
  c.prefix_ ++ ('"' :: (schemeEscape mdt ++ ('"' :: c.suffix_)))

end FV
