import FindVerif.Model.Text
/-
  Transcription of `src/ast.rs`, `src/permission_flags.rs` and `RunOptions` (`src/lib.rs`).
  Numbers are unbounded `Nat`; the field widths (`u32`/`u64`/`u16`) are enforced where the
  Rust code converts (see `Lex/*`), and `byteSize` models the `u64` product explicitly.
-/
namespace FV

inductive Size where
  | byte (n : Nat) | word (n : Nat) | block (n : Nat) | kilo (n : Nat)
  | mega (n : Nat) | giga (n : Nat) | tera (n : Nat)
  deriving Repr, DecidableEq, Inhabited

def Size.count : Size → Nat
  | .byte n | .word n | .block n | .kilo n | .mega n | .giga n | .tera n => n

/-- `Size::mult`. -/
def Size.mult : Size → Nat
  | .byte _ => 1
  | .word _ => 2
  | .block _ => 512
  | .kilo _ => 1024
  | .mega _ => 1024 * 1024
  | .giga _ => 1024 * 1024 * 1024
  | .tera _ => 1024 * 1024 * 1024 * 1024

/-- `Size::byte_size` (`s * self.mult()` on `u64`): with overflow checks (debug) an
    overflowing product panics, without (release) it wraps. -/
def Size.byteSize (debugChecks : Bool) (s : Size) : Option Nat :=
  let p := s.count * s.mult
  if p < 2 ^ 64 then some p else if debugChecks then none else some (p % 2 ^ 64)

inductive TimeSpec where
  | second (n : Nat) | minute (n : Nat) | hour (n : Nat) | day (n : Nat)
  deriving Repr, DecidableEq, Inhabited

def TimeSpec.count : TimeSpec → Nat
  | .second n | .minute n | .hour n | .day n => n

/-- `TimeSpec::secs`. -/
def TimeSpec.secs : TimeSpec → Nat
  | .second _ => 1
  | .minute _ => 60
  | .hour _ => 60 * 60
  | .day _ => 24 * 60 * 60

inductive Comparison (α : Type) where
  | gt (a : α) | lt (a : α) | eq (a : α)
  deriving Repr, DecidableEq, Inhabited

def Comparison.val {α} : Comparison α → α
  | .gt a | .lt a | .eq a => a

def Comparison.map {α β} (f : α → β) : Comparison α → Comparison β
  | .gt a => .gt (f a) | .lt a => .lt (f a) | .eq a => .eq (f a)

inductive FileType where
  | block | character | directory | pipe | file | link | socket
  deriving Repr, DecidableEq, Inhabited

/-- `FileType::octal().bits()`. -/
def FileType.octal : FileType → Nat
  | .directory => 0o040000
  | .character => 0o020000
  | .block => 0o060000
  | .file => 0o100000
  | .pipe => 0o010000
  | .link => 0o120000
  | .socket => 0o140000

def S_IFMT : Nat := 0o170000

/-- `Mode` as its bit value (all defined flags together are `0o7777`). -/
abbrev Mode := Nat
def Mode.all : Nat := 0o7777

inductive PermCheck where
  | atLeast (m : Mode) | any (m : Mode) | equal (m : Mode)
  deriving Repr, DecidableEq, Inhabited

inductive FormatSpecial where
  | alarm | backspace | clear | form | newline | carriageReturn | tabHorizontal
  | tabVertical | null | backslash | ascii (n : Nat)
  deriving Repr, DecidableEq, Inhabited

inductive FormatField where
  | percent | access | accessFormatted (c : Char) | diskSizeBlocks | change
  | changeFormatted (c : Char) | depth | deviceNumber | basename | fsType | group
  | groupId | parents | startingPoint | inodeDecimal | diskSizeKilos | symbolicTarget
  | permissionsOctal | permissionsSymbolic | hardlinks | name | nameWithoutStartingPoint
  | diskSizeBytes | sparseness | modify | modifyFormatted (c : Char) | user | userId
  | type | typeSymlink | securityContext | fileId | projectId | mirrorCount | stripeCount
  | stripeSize | xattr (s : Text)
  deriving Repr, DecidableEq, Inhabited

inductive FormatElement where
  | literal (s : Text) | field (f : FormatField) | special (s : FormatSpecial)
  deriving Repr, DecidableEq, Inhabited

inductive Test where
  | accessTime (c : Comparison TimeSpec) | changeTime (c : Comparison TimeSpec) | empty
  | executable | false_ | groupId (c : Comparison Nat) | inodeNumber (c : Comparison Nat)
  | insensitiveName (s : Text) | insensitivePath (s : Text) | links (c : Comparison Nat)
  | mirrorCount (c : Comparison Nat) | modifyTime (c : Comparison TimeSpec) | name (s : Text)
  | path (s : Text) | perm (p : PermCheck) | pool (s : Text) | readable
  | size (c : Comparison Size) | stripeCount (c : Comparison Nat) | true_
  | type (l : List FileType) | userId (c : Comparison Nat) | writable | xattr (s : Text)
  | xattrMatch (f v : Text)
  -- unsupported by the target
  | accessNewer (s : Text) | changeNewer (s : Text) | fsType (s : Text) | group (s : Text)
  | insensitiveLinkName (s : Text) | insensitiveRegex (s : Text) | linkName (s : Text)
  | modifyNewer (s : Text) | noGroup | noUser | regex (s : Text) | samefile (s : Text)
  | user (s : Text)
  deriving Repr, DecidableEq, Inhabited

inductive Action where
  | fileList (f : Text) | filePrint (f : Text) | filePrintNull (f : Text)
  | filePrintFormatted (f : Text) (fmt : List FormatElement) | list | print | printNull
  | printFormatted (fmt : List FormatElement) | printFid | prune | quit | defaultPrint
  deriving Repr, DecidableEq, Inhabited

inductive GlobalOption where
  | depth | maxDepth (n : Nat) | minDepth (n : Nat) | threads (n : Nat)
  deriving Repr, DecidableEq, Inhabited

inductive PositionalOption where
  | xdev
  deriving Repr, DecidableEq, Inhabited

/-- `Expression` with `Operator` inlined (the `Rc<Operator>` indirection carries no
    behaviour). -/
inductive Expr where
  | test (t : Test)
  | action (a : Action)
  | global (g : GlobalOption)
  | positional (p : PositionalOption)
  | prec (e : Expr)
  | not (e : Expr)
  | and (a b : Expr)
  | or (a b : Expr)
  | list (a b : Expr)
  deriving Repr, DecidableEq, Inhabited

/-- `Expression::action`. -/
def Expr.hasAction : Expr → Bool
  | .action _ => true
  | .prec e | .not e => e.hasAction
  | .and a b | .or a b | .list a b => a.hasAction || b.hasAction
  | _ => false

def Action.complexFrames : Action → Bool
  | .printNull | .fileList _ | .filePrint _ | .filePrintFormatted _ _ | .filePrintNull _ => true
  | .printFormatted fmt =>
    match fmt.getLast? with
    | some el => !(el = FormatElement.special FormatSpecial.newline)
    | none => false
  | _ => false

/-- `Expression::complex_frames`. -/
def Expr.complexFrames : Expr → Bool
  | .action a => a.complexFrames
  | .prec e | .not e => e.complexFrames
  | .and a b | .or a b | .list a b => a.complexFrames || b.complexFrames
  | _ => false

structure RunOptions where
  depth : Bool := false
  threads : Option Nat := none
  deriving Repr, DecidableEq, Inhabited

/-- `RunOptions::update`; `none` is the `unreachable!()` arm. -/
def RunOptions.update (o : RunOptions) : GlobalOption → Option RunOptions
  | .depth => some { o with depth := true }
  | .threads n => some { o with threads := some n }
  | _ => none

/-- `manager::Target`; terminators are `Option<char>`. -/
inductive Target where
  | stdout (term : Option Char)
  | file (name : Text) (term : Option Char)
  deriving Repr, DecidableEq, Inhabited

inductive Token where
  | lparen | rparen | or | and | not | comma
  | test (t : Test) | action (a : Action) | global (g : GlobalOption)
  | positional (p : PositionalOption)
  deriving Repr, DecidableEq, Inhabited

end FV
