/-
  Text helpers: the model works on `List Char` (Unicode scalar values, the unit winnow's
  `any`/`take_while`/`one_of` work in on `&str`).  `cl!"abc"` is an elaboration-time
  macro for the list literal `['a','b','c']`, so that keywords are kernel-reducible data.
-/
namespace FV

abbrev Text := List Char

open Lean in
macro "cl!" s:str : term => do
  let cs := s.getString.toList
  let elems : Array (TSyntax `term) := (cs.map fun c => (Syntax.mkCharLit c : TSyntax `term)).toArray
  `(([$elems,*] : List Char))

/-- winnow `multispace`: space, tab, CR, LF. -/
def isBlank (c : Char) : Bool := c = ' ' || c = '\t' || c = '\r' || c = '\n'

/-- ASCII digit. -/
def isDigit (c : Char) : Bool := '0' ≤ c && c ≤ '9'

/-- ASCII octal digit. -/
def isOct (c : Char) : Bool := '0' ≤ c && c ≤ '7'

/-- ASCII letter (`AsChar::is_alpha`). -/
def isAlpha (c : Char) : Bool := ('a' ≤ c && c ≤ 'z') || ('A' ≤ c && c ≤ 'Z')

def digitVal (c : Char) : Nat := c.toNat - '0'.toNat

/-- Value of a digit string in base `b`, most significant first. -/
def baseVal (b : Nat) (ds : List Char) : Nat := ds.foldl (fun acc c => acc * b + digitVal c) 0

def decVal (ds : List Char) : Nat := baseVal 10 ds
def octVal (ds : List Char) : Nat := baseVal 8 ds

/-- Decimal rendering (what Rust's `Display` for unsigned integers prints). -/
def natToDecAux : Nat → Nat → List Char → List Char
  | 0, _, acc => acc
  | fuel+1, n, acc =>
    let d := Char.ofNat ('0'.toNat + n % 10)
    if n / 10 = 0 then d :: acc else natToDecAux fuel (n / 10) (d :: acc)

def natToDec (n : Nat) : List Char := natToDecAux (n + 1) n []

def hexDigit (n : Nat) : Char :=
  if n < 10 then Char.ofNat ('0'.toNat + n) else Char.ofNat ('a'.toNat + (n - 10))

def natToHexAux : Nat → Nat → List Char → List Char
  | 0, _, acc => acc
  | fuel+1, n, acc =>
    let d := hexDigit (n % 16)
    if n / 16 = 0 then d :: acc else natToHexAux fuel (n / 16) (d :: acc)

def natToHex (n : Nat) : List Char := natToHexAux (n + 1) n []

/-- Rust `{:02x}`: lowercase hex, zero-padded to width 2. -/
def natToHex02 (n : Nat) : List Char :=
  let h := natToHex n
  if h.length < 2 then '0' :: h else h

def isPrefix : List Char → List Char → Bool
  | [], _ => true
  | _ :: _, [] => false
  | a :: as, b :: bs => a = b && isPrefix as bs

def containsChar (s : List Char) (c : Char) : Bool := s.any (· = c)

end FV
