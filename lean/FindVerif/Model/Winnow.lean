import FindVerif.Model.Text
/-
  Transcription of the winnow 0.6.7 combinators the crate uses (DESIGN.md Appendix A).
  A parser is a function from the remaining input to a four-way result; on failure the
  result records the mode (Backtrack = `cut := false`, Cut = `cut := true`), the context
  list in push order (inner first, as `ContextError::context` stores it) and the input
  position the failing parser left behind (winnow mutates `&mut input` in place; the
  crate's `dispatch` later reads the next word from exactly there).
-/
namespace FV

inductive Ctx where
  | label (s : Text)
  | expected (s : Text)
  deriving Repr, DecidableEq, Inhabited

/-- Build profile: winnow's `ErrMode::assert` panics with debug assertions and is a
    `Cut` error without. -/
inductive Profile where
  | debug | release
  deriving Repr, DecidableEq, Inhabited

inductive Res (ι α : Type) where
  | ok (a : α) (rest : List ι)
  | err (cut : Bool) (ctx : List Ctx) (rest : List ι)
  | panic (site : Text)
  deriving Repr, Inhabited, DecidableEq

abbrev P (ι α : Type) := List ι → Res ι α

namespace W
variable {ι α β γ : Type}

/-- `ErrMode::assert`: the loop guard of `repeat`/`separated`/`repeat_till`. -/
def assertFail (pf : Profile) (i : List ι) : Res ι α :=
  match pf with
  | .debug => .panic (cl!"winnow-assert")
  | .release => .err true [] i

def pure (a : α) : P ι α := fun i => .ok a i

def fail : P ι α := fun i => .err false [] i

def eof : P ι Unit := fun i =>
  match i with
  | [] => .ok () []
  | _ :: _ => .err false [] i

def any : P ι ι := fun i =>
  match i with
  | [] => .err false [] i
  | c :: r => .ok c r

def oneOf (p : ι → Bool) : P ι ι := fun i =>
  match i with
  | [] => .err false [] i
  | c :: r => if p c then .ok c r else .err false [] i

/-- `literal(s)` on `&str`. -/
def lit (s : Text) : P Char Unit := fun i =>
  if isPrefix s i then .ok () (i.drop s.length) else .err false [] i

/-- `take_while(m.., p)`. -/
def takeWhile (m : Nat) (p : ι → Bool) : P ι (List ι) := fun i =>
  let pre := i.takeWhile p
  if m ≤ pre.length then .ok pre (i.dropWhile p) else .err false [] i

/-- `take_while(m..=n, p)`: at most `n` matching elements are taken. -/
def takeWhileMN (m n : Nat) (p : ι → Bool) : P ι (List ι) := fun i =>
  let pre := (i.takeWhile p).take n
  if m ≤ pre.length then .ok pre (i.drop pre.length) else .err false [] i

/-- `take_until(1.., d)` for a one-character delimiter: the delimiter must occur and not
    at offset 0; the delimiter itself is not consumed. -/
def takeUntil1 (d : Char) : P Char Text := fun i =>
  let pre := i.takeWhile (· ≠ d)
  let rest := i.dropWhile (· ≠ d)
  match rest with
  | [] => .err false [] i
  | _ :: _ => if pre.isEmpty then .err false [] i else .ok pre rest

def digit1 : P Char Text := takeWhile 1 isDigit
def alpha1 : P Char Text := takeWhile 1 isAlpha
def multispace0 : P Char Text := takeWhile 0 isBlank
def multispace1 : P Char Text := takeWhile 1 isBlank

def map (f : α → β) (p : P ι α) : P ι β := fun i =>
  match p i with
  | .ok a r => .ok (f a) r
  | .err k c r => .err k c r
  | .panic s => .panic s

def value (b : β) (p : P ι α) : P ι β := map (fun _ => b) p

/-- `.map(f)` where `f` contains an `unwrap()`/`unreachable!()`: `none` is the panic. -/
def mapOrPanic (site : Text) (f : α → Option β) (p : P ι α) : P ι β := fun i =>
  match p i with
  | .ok a r =>
    match f a with
    | some b => .ok b r
    | none => .panic site
  | .err k c r => .err k c r
  | .panic s => .panic s

/-- Sequence keeping both outputs (winnow tuple parser): no reset on failure. -/
def pair (p : P ι α) (q : P ι β) : P ι (α × β) := fun i =>
  match p i with
  | .ok a r =>
    match q r with
    | .ok b r' => .ok (a, b) r'
    | .err k c r' => .err k c r'
    | .panic s => .panic s
  | .err k c r => .err k c r
  | .panic s => .panic s

def preceded (p : P ι α) (q : P ι β) : P ι β := map Prod.snd (pair p q)
def terminated (p : P ι α) (q : P ι β) : P ι α := map Prod.fst (pair p q)
def delimited (p : P ι α) (q : P ι β) (r : P ι γ) : P ι β := preceded p (terminated q r)
def separatedPair (p : P ι α) (s : P ι γ) (q : P ι β) : P ι (α × β) :=
  pair p (preceded s q)

/-- Two-way `alt`: the second alternative starts from the original input; its result is
    returned as is (no final reset; `ContextError::or` keeps the later error). -/
def alt2 (p q : P ι α) : P ι α := fun i =>
  match p i with
  | .err false _ _ => q i
  | r => r

/-- n-ary `alt` over a non-empty list. -/
def alt : List (P ι α) → P ι α
  | [] => fail
  | [p] => p
  | p :: ps => alt2 p (alt ps)

def cutErr (p : P ι α) : P ι α := fun i =>
  match p i with
  | .err _ c r => .err true c r
  | r => r

def context (c : Ctx) (p : P ι α) : P ι α := fun i =>
  match p i with
  | .err k cs r => .err k (cs ++ [c]) r
  | r => r

/-- `try_map` / `verify_map`: a failing conversion resets the input and backtracks with
    an empty context. -/
def tryMap (f : α → Option β) (p : P ι α) : P ι β := fun i =>
  match p i with
  | .ok a r =>
    match f a with
    | some b => .ok b r
    | none => .err false [] i
  | .err k c r => .err k c r
  | .panic s => .panic s

/-- `outer.and_then(inner)`: `inner` runs on the slice `outer` produced and need not
    consume all of it; on inner failure the input is reset to before `outer`. -/
def andThen (outer : P ι (List ι)) (inner : P ι β) : P ι β := fun i =>
  match outer i with
  | .ok slice r =>
    match inner slice with
    | .ok b _ => .ok b r
    | .err k c _ => .err k c i
    | .panic s => .panic s
  | .err k c r => .err k c r
  | .panic s => .panic s

/-- `repeat(0.., p)` folded with `g` from `init` (`repeat0_` and `fold_repeat0_` have the
    same control flow).  Fuel: callers pass `input.length + 1`. -/
def repeatFold (pf : Profile) (p : P ι α) (g : β → α → β) : Nat → β → P ι β
  | 0, _ => fun _ => .panic (cl!"fuel")
  | fuel + 1, acc => fun i =>
    match p i with
    | .err false _ _ => .ok acc i
    | .err true c r => .err true c r
    | .panic s => .panic s
    | .ok a r =>
      if r.length = i.length then assertFail pf r
      else repeatFold pf p g fuel (g acc a) r

def repeat0 (pf : Profile) (p : P ι α) : P ι (List α) := fun i =>
  map List.reverse (repeatFold pf p (fun acc a => a :: acc) (i.length + 1) []) i

/-- Loop of `repeat_till0_` / the second loop of `repeat_till_m_n_` (with `max = ∞`). -/
def repeatTillLoop (pf : Profile) (f : P ι α) (g : P ι β) : Nat → List α → P ι (List α × β)
  | 0, _ => fun _ => .panic (cl!"fuel")
  | fuel + 1, acc => fun i =>
    match g i with
    | .ok b r => .ok (acc.reverse, b) r
    | .err true c r => .err true c r
    | .panic s => .panic s
    | .err false _ _ =>
      match f i with
      | .err k c r => .err k c r
      | .panic s => .panic s
      | .ok a r =>
        if r.length = i.length then assertFail pf r
        else repeatTillLoop pf f g fuel (a :: acc) r

def repeatTill0 (pf : Profile) (f : P ι α) (g : P ι β) : P ι (List α × β) := fun i =>
  repeatTillLoop pf f g (i.length + 1) [] i

/-- `repeat_till(1.., f, g)`: `f` runs once first (no terminator attempt, no progress
    check), then the loop. -/
def repeatTill1 (pf : Profile) (f : P ι α) (g : P ι β) : P ι (List α × β) := fun i =>
  match f i with
  | .err k c r => .err k c r
  | .panic s => .panic s
  | .ok a r => repeatTillLoop pf f g (r.length + 1) [a] r

/-- Loop of `separated1_` after the first element. -/
def separatedLoop (pf : Profile) (p : P ι α) (sep : P ι γ) : Nat → List α → P ι (List α)
  | 0, _ => fun _ => .panic (cl!"fuel")
  | fuel + 1, acc => fun i =>
    match sep i with
    | .err false _ _ => .ok acc.reverse i
    | .err true c r => .err true c r
    | .panic s => .panic s
    | .ok _ r =>
      if r.length = i.length then assertFail pf r
      else
        match p r with
        | .err false _ _ => .ok acc.reverse i
        | .err true c r' => .err true c r'
        | .panic s => .panic s
        | .ok a r' => separatedLoop pf p sep fuel (a :: acc) r'

def separated1 (pf : Profile) (p : P ι α) (sep : P ι γ) : P ι (List α) := fun i =>
  match p i with
  | .err k c r => .err k c r
  | .panic s => .panic s
  | .ok a r => separatedLoop pf p sep (r.length + 1) [a] r

end W
end FV
