import FindVerif.Model.Compile
import FindVerif.Spec.Scheme.Analysis
/-
  Structured twin of `Compile.lean`: the same code generator, producing S-expressions instead of
  text (user strings are `SExp.str` nodes by construction; `#\xHH` is `SExp.chr`; `#o07777` is the
  number).  Tied to the implementation on every run of C02: the implementation's emitted text is
  read back with the Scheme reader and compared with `programS` of the same tree.
-/
namespace FV
open Scheme (SExp)

def sy (s : Text) : SExp := .sym s
def call (f : Text) (args : List SExp) : SExp := .list (sy f :: args)

def cmpOp {α : Type} : Comparison α → Text
  | .gt _ => cl!">" | .lt _ => cl!"<" | .eq _ => cl!"="

def genCmp (c : Comparison Nat) (target : Text) : SExp :=
  call (cmpOp c) [call target [], .num c.val]

def sizeLhsS (s : Size) : SExp :=
  match s with
  | .byte _ => call (cl!"size") []
  | _ => call (cl!"round-up-power-of-2") [call (cl!"size") [], .num s.mult]

def genSizeComp (c : Comparison Size) : SExp :=
  call (cmpOp c) [sizeLhsS c.val, .num (exactByteSize c.val)]

def genTimeComp (secs : Nat) (field : Text) (c : Comparison TimeSpec) : SExp :=
  call (cmpOp c) [call (cl!"quotient") [call (cl!"-") [.num secs, call field []], .num c.val.secs], .num c.val.count]

def genTypeList (l : List FileType) : SExp :=
  let comps := l.map fun tp => call (cl!"=") [call (cl!"logand") [call (cl!"mode") [], .num S_IFMT], .num tp.octal]
  match comps with
  | [c] => c
  | _ => call (cl!"or") comps

def genPermCheck (p : PermCheck) : SExp :=
  let land (m : Nat) := call (cl!"logand") [call (cl!"mode") [], .num m]
  match p with
  | .equal perm => call (cl!"=") [land 0o7777, .num perm]
  | .atLeast perm => call (cl!"=") [land perm, .num perm]
  | .any perm => call (cl!"not") [call (cl!"=") [land perm, .num 0]]

/-- The template string's VALUE (what the reader returns for the emitted literal). -/
def specialValue : FormatSpecial → Option Text
  | .alarm => some ['\x07'] | .ascii v => some (replaceTilde [Char.ofNat v]) | .backslash => some ['\\']
  | .backspace => some ['\x08'] | .carriageReturn => some ['\r'] | .clear => none | .form => some ['\x0c']
  | .newline => some ['\n'] | .null => some ['\x00'] | .tabHorizontal => some ['\t'] | .tabVertical => some ['\x0b']

def elementValue : FormatElement → Except CompileError Text
  | .literal s => .ok (replaceTilde s)
  | .field f => match placeholder f with
    | some t => .ok t
    | none => .error (.unsupportedFormat f.debugName)
  | .special v => match specialValue v with
    | some t => .ok t
    | none => .error (.unsupportedFormat (cl!"Clear"))

def templateValue : List FormatElement → Except CompileError Text
  | [] => .ok []
  | e :: es => match elementValue e with
    | .error x => .error x
    | .ok t => match templateValue es with
      | .error x => .error x
      | .ok ts => .ok (t ++ ts)

def strftimeItem (c : Char) (field : Text) : SExp :=
  if c = '@' then call field []
  else call (cl!"strftime") [.str ['%', c], call (cl!"localtime") [call field []]]

/-- The argument form of one field (`none`: no argument, or unsupported). -/
def itemS (f : FormatField) : Option SExp :=
  if f.unsupported then none else
  match f with
  | .access => some (call (cl!"atime") []) | .change => some (call (cl!"ctime") [])
  | .modify => some (call (cl!"mtime") []) | .diskSizeBlocks => some (call (cl!"blocks") [])
  | .basename => some (call (cl!"name") []) | .group => some (call (cl!"group") [])
  | .groupId => some (call (cl!"gid") [])
  | .parents => some (call (cl!"call-with-relative-path") [sy (cl!"dirname")])
  | .startingPoint => some (call (cl!"lipe-scan-client-mount-path") [])
  | .inodeDecimal => some (call (cl!"ino") [])
  | .diskSizeKilos => some (call (cl!"quotient") [call (cl!"+") [call (cl!"blocks") [], .num 1], .num 2])
  | .permissionsOctal => some (call (cl!"logand") [call (cl!"mode") [], .num 0o7777])
  | .hardlinks => some (call (cl!"nlink") []) | .name => some (call (cl!"absolute-path") [])
  | .nameWithoutStartingPoint => some (call (cl!"relative-path") [])
  | .diskSizeBytes => some (call (cl!"size") [])
  | .sparseness => some (call (cl!"/") [call (cl!"*") [.num 512, call (cl!"blocks") []], call (cl!"size") []])
  | .user => some (call (cl!"user") []) | .userId => some (call (cl!"uid") [])
  | .type => some (call (cl!"type->char") [call (cl!"type") []])
  | .fileId => some (call (cl!"file-fid") []) | .stripeSize => some (call (cl!"lov-stripe-size") [])
  | .stripeCount => some (call (cl!"lov-stripe-count") [])
  | .mirrorCount => some (call (cl!"lov-mirror-count") []) | .projectId => some (call (cl!"projid") [])
  | .accessFormatted c => some (strftimeItem c (cl!"atime"))
  | .changeFormatted c => some (strftimeItem c (cl!"ctime"))
  | .modifyFormatted c => some (strftimeItem c (cl!"mtime"))
  | .xattr a => some (call (cl!"or") [call (cl!"xattr-ref-string") [.str a], .str []])
  | _ => none

def itemsS (es : List FormatElement) : List SExp :=
  es.filterMap fun e => match e with
    | .field f => itemS f
    | _ => none

def genFormat (es : List FormatElement) : Except CompileError SExp :=
  match templateValue es with
  | .error x => .error x
  | .ok t => .ok (call (cl!"format") (.bool false :: .str t :: itemsS es))

/-- Structured `impl TargetScheme for Test`. -/
def genTest (clk : Nat → Nat) (t : Test) (st : CState) : CRes (SExp × CState) :=
  let timeT (field : Text) (c : Comparison TimeSpec) : CRes (SExp × CState) :=
    .ok (genTimeComp (clk st.reads) field c, { st with reads := st.reads + 1 })
  let matchT (pre : Text) (s : Text) (ci : Bool) : CRes (SExp × CState) :=
    let (name, m) := st.mgr.getMatcher s ci
    .ok (call pre [sy name], { st with mgr := m })
  match t with
  | .accessTime c => timeT (cl!"atime") c
  | .changeTime c => timeT (cl!"ctime") c
  | .modifyTime c => timeT (cl!"mtime") c
  | .empty => .ok (call (cl!"empty") [], st)
  | .executable => .ok (call (cl!"executable") [], st)
  | .false_ => .ok (.bool false, st)
  | .groupId c => .ok (genCmp c (cl!"gid"), st)
  | .inodeNumber c => .ok (genCmp c (cl!"ino"), st)
  | .insensitiveName s => matchT (cl!"call-with-name") s true
  | .insensitivePath s => matchT (cl!"call-with-relative-path") s true
  | .links c => .ok (genCmp c (cl!"nlink"), st)
  | .mirrorCount c => .ok (genCmp c (cl!"lov-mirror-count"), st)
  | .name s => matchT (cl!"call-with-name") s false
  | .path s => matchT (cl!"call-with-relative-path") s false
  | .perm p => .ok (genPermCheck p, st)
  | .pool s => .ok (call (cl!"member") [.str s, call (cl!"lov-pools") []], st)
  | .readable => .ok (call (cl!"readable") [], st)
  | .size c => .ok (genSizeComp c, st)
  | .stripeCount c => .ok (genCmp c (cl!"lov-stripe-count"), st)
  | .true_ => .ok (.bool true, st)
  | .type l => .ok (genTypeList l, st)
  | .userId c => .ok (genCmp c (cl!"uid"), st)
  | .writable => .ok (call (cl!"writable") [], st)
  | .xattr f => .ok (call (cl!"xattr?") [.str f], st)
  | .xattrMatch f v =>
    if !(f.any isOffending || v.any isOffending) then
      .ok (call (cl!"equal?") [call (cl!"xattr-ref-string") [.str f], .str v], st)
    else
      .ok (call (cl!"xattr-match?") [.str f, .str v], st)
  | other => match other.unsupportedName with
    | some n => .err (.unsupportedTest n)
    | none => .panic (cl!"model:unsupportedName")

/-- Structured `impl TargetScheme for Action`. -/
def genAction (a : Action) (st : CState) : CRes (SExp × CState) :=
  let viaPath (r : Text × Manager) : CRes (SExp × CState) :=
    .ok (call (cl!"call-with-relative-path") [sy r.1], { st with mgr := r.2 })
  let viaFormat (r : Text × Manager) (es : List FormatElement) : CRes (SExp × CState) :=
    match genFormat es with
    | .error x => .err x
    | .ok f => .ok (call r.1 [f], { st with mgr := r.2 })
  match a with
  | .defaultPrint => .ok (call (cl!"print-relative-path") [], st)
  | .print => viaPath (st.mgr.getPrinter (some '\n'))
  | .printNull => viaPath (st.mgr.getPrinter (some '\x00'))
  | .filePrint d => viaPath (st.mgr.getFilePrinter d (some '\n'))
  | .filePrintNull d => viaPath (st.mgr.getFilePrinter d (some '\x00'))
  | .printFormatted es => viaFormat (st.mgr.getPrinter none) es
  | .filePrintFormatted d es => viaFormat (st.mgr.getFilePrinter d none) es
  | .printFid => .ok (call (cl!"print-file-fid") [], st)
  | .quit => .ok (call (cl!"lipe-scan-break") [.num 0], st)
  | .prune => .err (.unsupportedAction (cl!"Prune"))
  | .list => .err (.unsupportedAction (cl!"List"))
  | .fileList s => .err (.unsupportedAction (cl!"FileList(" ++ debugStr s ++ cl!")"))

/-- Structured `impl TargetScheme for Expression`. -/
def genExpr (clk : Nat → Nat) : Expr → CState → CRes (SExp × CState)
  | .test t, st => genTest clk t st
  | .action a, st => genAction a st
  | .positional _, _ => .err (.unsupportedOption (cl!"XDev"))
  | .global _, _ => .panic (cl!"target_scheme.rs:unreachable-global")
  | .prec _, _ => .panic (cl!"target_scheme.rs:unreachable-precedence")
  | .not e, st =>
    match genExpr clk e st with
    | .ok (t, st') => .ok (call (cl!"not") [t], st')
    | r => r
  | .and a b, st => bin (cl!"and") (genExpr clk a st) (genExpr clk b)
  | .list a b, st => bin (cl!"and") (genExpr clk a st) (genExpr clk b)
  | .or a b, st => bin (cl!"or") (genExpr clk a st) (genExpr clk b)
where
  bin (hd : Text) (l : CRes (SExp × CState)) (r : CState → CRes (SExp × CState)) : CRes (SExp × CState) :=
    match l with
    | .ok (tl, st1) =>
      match r st1 with
      | .ok (tr, st2) => .ok (call hd [tl, tr], st2)
      | e => e
    | e => e

def termS : Option Char → SExp
  | none => .bool false
  | some c => .chr (c.toNat % 256)

def matcherBody (i : Nat) (pattern : Text) (insensitive : Bool) : SExp :=
  call (matcherName pattern insensitive ++ cl!"?") [.str pattern, sy (lf3 (cl!"str") i)]

def frameBody : SExp :=
  call (cl!"with-mutex") [sy (cl!"%lf3:mutex:1"),
    call (cl!"display") [sy (cl!"s"), sy (cl!"%lf3:port:0")],
    call (cl!"display") [call (cl!"string") [.chr 0x1e, sy (cl!"d")], sy (cl!"%lf3:port:0")]]

/-- The `let*` binding (name, initialiser) a manager variable stands for. -/
def Binding.sexp : Binding → Text × SExp
  | .stdoutPort i => (lf3 (cl!"port") i, call (cl!"current-output-port") [])
  | .filePort i filename => (lf3 (cl!"port") i, call (cl!"open-file") [.str filename, .str (cl!"w")])
  | .mutex i => (lf3 (cl!"mutex") i, call (cl!"make-mutex") [])
  | .printerL i prt mtx term =>
    (lf3 (cl!"print") i, call (cl!"make-printer") [sy (lf3 (cl!"port") prt), sy (lf3 (cl!"mutex") mtx), termS term])
  | .printerD i =>
    (lf3 (cl!"print") i, call (cl!"lambda") [.list [sy (cl!"line")], call (cl!"%lf3:frame:2") [sy (cl!"line"), .chr i]])
  | .matcher i pattern insensitive =>
    (lf3 (cl!"match") (i + 1), call (cl!"lambda") [.list [sy (lf3 (cl!"str") i)], matcherBody i pattern insensitive])
  | .frame => (cl!"%lf3:frame:2", call (cl!"lambda") [.list [sy (cl!"s"), sy (cl!"d")], frameBody])

structure ProgramS where
  bindings : List (Text × SExp)
  body : SExp
  ioMap : Option (List (Nat × Target))
  deriving Repr, Inhabited

/-- Structured `compile`. -/
def compileS (clk : Nat → Nat) (e : Expr) : CRes ProgramS :=
  let mgr := if e.complexFrames then Manager.distInit else Manager.localInit
  let target := if !e.hasAction then Expr.and e (.action .defaultPrint) else e
  match genExpr clk target { mgr := mgr } with
  | .err x => .err x
  | .panic s => .panic s
  | .ok (body, st) => .ok { bindings := st.mgr.vars.map Binding.sexp, body := body, ioMap := st.mgr.printerMap }

end FV
