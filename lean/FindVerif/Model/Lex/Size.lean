import FindVerif.Model.Lex.Prelude
/- `src/find_parser/size.rs` and `src/find_parser/timespec.rs`. -/
namespace FV
open W

def sizeUnit (c : Char) (n : Nat) : Option Size :=
  if c = 'b' then some (.block n) else if c = 'c' then some (.byte n)
  else if c = 'w' then some (.word n) else if c = 'k' then some (.kilo n)
  else if c = 'M' then some (.mega n) else if c = 'G' then some (.giga n)
  else if c = 'T' then some (.tera n) else none

def isSizeUnit (c : Char) : Bool := containsChar (cl!"bcwkMGT") c

/-- `Size::parse`. -/
def parseSize : P Char Size :=
  context (label (cl!"size"))
    (alt [ mapOrPanic (cl!"size.rs:unreachable") (fun (nu : Nat × Char) => sizeUnit nu.2 nu.1)
             (pair parseU64 (oneOf isSizeUnit)),
           andThen (terminated digit1 alpha1)
             (cutErr (context (expected (cl!"invalid_size_specifier")) fail)),
           map Size.block parseU64 ])

def timeUnit (c : Char) (n : Nat) : Option TimeSpec :=
  if c = 's' then some (.second n) else if c = 'm' then some (.minute n)
  else if c = 'h' then some (.hour n) else if c = 'd' then some (.day n) else none

def isTimeUnit (c : Char) : Bool := containsChar (cl!"smhd") c

/-- `TimeSpec::parse(input, default)`. -/
def parseTime (dflt : Nat → TimeSpec) : P Char TimeSpec :=
  context (label (cl!"timespec"))
    (alt [ mapOrPanic (cl!"timespec.rs:unreachable") (fun (nu : Nat × Char) => timeUnit nu.2 nu.1)
             (pair parseU64 (oneOf isTimeUnit)),
           andThen (terminated digit1 alpha1)
             (cutErr (context (expected (cl!"invalid_time_specifier")) fail)),
           map dflt parseU64 ])

end FV
