import FindVerif.Model.Winnow
import FindVerif.Model.Ast
/-
  `src/find_parser/prelude.rs`: unsigned integers, the word/quote reader, `String::parse`,
  and the `unary!` / `binary!` macros and `parse_comp_format` of `find_parser/mod.rs`.
-/
namespace FV
open W

def expected (s : Text) : Ctx := .expected s
def label (s : Text) : Ctx := .label s

/-- `u32::parse` / `u64::parse` (`bound` = 2^32 / 2^64): `digit1.try_map(str::parse)`. -/
def parseUint (bound : Nat) : P Char Nat :=
  context (expected (cl!"unsigned_integer"))
    (tryMap (fun ds => if decVal ds < bound then some (decVal ds) else none) digit1)

def parseU32 : P Char Nat := parseUint (2 ^ 32)
def parseU64 : P Char Nat := parseUint (2 ^ 64)

/-- Characters that end a bare word. -/
def isWordChar (c : Char) : Bool := !(isBlank c) && c ≠ ')'

/-- `quote_delimiter()`. -/
def quoteDelimiter : P Char Text :=
  alt [ delimited (lit (cl!"\"")) (takeUntil1 '"') (lit (cl!"\"")),
        delimited (lit (cl!"'")) (takeUntil1 '\'') (lit (cl!"'")),
        takeWhile 1 isWordChar ]

/-- `String::parse`. -/
def parseString : P Char Text := context (expected (cl!"string")) quoteDelimiter

/-- `unary!(identifier, transform, parser)`. -/
def unary {α β : Type} (kw : Text) (tr : α → β) (p : P Char α) : P Char β :=
  map tr (context (label kw) (preceded (lit kw) (cutErr (preceded multispace1 (cutErr p)))))

/-- `binary!(identifier, transform, lhs, rhs, arguments)`. -/
def binary {α β γ : Type} (kw : Text) (tr : α × β → γ) (l : P Char α) (r : P Char β)
    (args : Text) : P Char γ :=
  map tr (context (label kw)
    (preceded (lit kw)
      (cutErr (context (expected args) (preceded multispace1 (separatedPair l multispace1 r))))))

/-- `parse_comp_format::<T, D>`. -/
def compFormat {α : Type} (p : P Char α) : P Char (Comparison α) :=
  context (label (cl!"comparison"))
    (alt [ map Comparison.gt (preceded (lit (cl!"+")) p),
           map Comparison.lt (preceded (lit (cl!"-")) p),
           map Comparison.eq (cutErr p) ])

end FV
