import FindVerif.Model.Lex.Size
import FindVerif.Model.Lex.Filetype
import FindVerif.Model.Lex.Permission
import FindVerif.Model.Lex.Format
/- `src/find_parser/mod.rs`: keyword tables, `token`, `lex`. -/
namespace FV
open W

def timeMin : P Char (Comparison TimeSpec) := compFormat (parseTime TimeSpec.minute)
def timeDay : P Char (Comparison TimeSpec) := compFormat (parseTime TimeSpec.day)
def cmpU32 : P Char (Comparison Nat) := compFormat parseU32
def cmpU64 : P Char (Comparison Nat) := compFormat parseU64

/-- A rejected (unsupported) option argument: read the number, then refuse it, putting
    the input back to the start of the number (`verify_map(|_| None)`). -/
def unsupportedOptionArg : P Char Nat :=
  context (expected (cl!"unsupported_option")) (tryMap (fun (_ : Nat) => (none : Option Nat)) parseU32)

/-- `GlobalOption::parse`. -/
def parseGlobal : P Char GlobalOption :=
  context (label (cl!"global_option"))
    (alt [ value GlobalOption.depth (lit (cl!"-depth")),
           unary (cl!"-maxdepth") GlobalOption.maxDepth unsupportedOptionArg,
           unary (cl!"-mindepth") GlobalOption.minDepth unsupportedOptionArg,
           unary (cl!"-threads") GlobalOption.threads parseU32 ])

/-- `PositionalOption::parse`. -/
def parsePositional : P Char PositionalOption :=
  context (label (cl!"positional_option")) (value PositionalOption.xdev (lit (cl!"nope")))

def formatArg (pf : Profile) : P Char (List FormatElement) := andThen quoteDelimiter (parseFormat pf)

/-- The alternatives of `Action::parse`, in source order, keyed by keyword. -/
def actionAlts (pf : Profile) : List (Text × P Char Action) :=
  [ (cl!"-fls", unary (cl!"-fls") Action.fileList parseString),
    (cl!"-fprintf", binary (cl!"-fprintf") (fun (ft : Text × List FormatElement) => Action.filePrintFormatted ft.1 ft.2)
        (context (expected (cl!"filename")) parseString)
        (context (expected (cl!"format_string")) (formatArg pf))
        (cl!"filename_and_format")),
    (cl!"-fprint0", unary (cl!"-fprint0") Action.filePrintNull parseString),
    (cl!"-fprint", unary (cl!"-fprint") Action.filePrint parseString),
    (cl!"-ls", value Action.list (terminated (lit (cl!"-ls")) multispace0)),
    (cl!"-print-file-fid", value Action.printFid (terminated (lit (cl!"-print-file-fid")) multispace0)),
    (cl!"-printf", unary (cl!"-printf") Action.printFormatted (formatArg pf)),
    (cl!"-print0", value Action.printNull (terminated (lit (cl!"-print0")) multispace0)),
    (cl!"-print", value Action.print (terminated (lit (cl!"-print")) multispace0)),
    (cl!"-prune", value Action.prune (terminated (lit (cl!"-prune")) multispace0)),
    (cl!"-quit", value Action.quit (terminated (lit (cl!"-quit")) multispace0)) ]

/-- `Action::parse`. -/
def parseAction (pf : Profile) : P Char Action :=
  context (label (cl!"action")) (alt ((actionAlts pf).map Prod.snd))

def permArg (pf : Profile) : P Char PermCheck :=
  andThen quoteDelimiter (terminated (parsePermCheck pf) eof)

/-- The alternatives of `Test::parse`, in source order (both inner `alt`s), by keyword. -/
def testAlts (pf : Profile) : List (Text × P Char Test) :=
  [ (cl!"-amin", unary (cl!"-amin") Test.accessTime timeMin),
    (cl!"-anewer", unary (cl!"-anewer") Test.accessNewer parseString),
    (cl!"-atime", unary (cl!"-atime") Test.accessTime timeDay),
    (cl!"-cmin", unary (cl!"-cmin") Test.changeTime timeMin),
    (cl!"-cnewer", unary (cl!"-cnewer") Test.changeNewer parseString),
    (cl!"-ctime", unary (cl!"-ctime") Test.changeTime timeDay),
    (cl!"-empty", value Test.empty (lit (cl!"-empty"))),
    (cl!"-executable", value Test.executable (lit (cl!"-executable"))),
    (cl!"-false", value Test.false_ (lit (cl!"-false"))),
    (cl!"-fstype", unary (cl!"-fstype") Test.fsType parseString),
    (cl!"-gid", unary (cl!"-gid") Test.groupId cmpU32),
    (cl!"-group", unary (cl!"-group") Test.group parseString),
    (cl!"-ilname", unary (cl!"-ilname") Test.insensitiveLinkName parseString),
    (cl!"-iname", unary (cl!"-iname") Test.insensitiveName parseString),
    (cl!"-inum", unary (cl!"-inum") Test.inodeNumber cmpU32),
    (cl!"-ipath", unary (cl!"-ipath") Test.insensitivePath parseString),
    (cl!"-iregex", unary (cl!"-iregex") Test.insensitiveRegex parseString),
    (cl!"-links", unary (cl!"-links") Test.links cmpU64),
    (cl!"-mirror-count", unary (cl!"-mirror-count") Test.mirrorCount cmpU32),
    (cl!"-mmin", unary (cl!"-mmin") Test.modifyTime timeMin),
    (cl!"-mnewer", unary (cl!"-mnewer") Test.modifyNewer parseString),
    (cl!"-mtime", unary (cl!"-mtime") Test.modifyTime timeDay),
    (cl!"-name", unary (cl!"-name") Test.name parseString),
    (cl!"-nouser", value Test.noUser (lit (cl!"-nouser"))),
    (cl!"-nogroup", value Test.noGroup (lit (cl!"-nogroup"))),
    (cl!"-path", unary (cl!"-path") Test.path parseString),
    (cl!"-perm", unary (cl!"-perm") Test.perm (permArg pf)),
    (cl!"-pool", unary (cl!"-pool") Test.pool parseString),
    (cl!"-readable", value Test.readable (lit (cl!"-readable"))),
    (cl!"-regex", unary (cl!"-regex") Test.regex parseString),
    (cl!"-samefile", unary (cl!"-samefile") Test.samefile parseString),
    (cl!"-size", unary (cl!"-size") Test.size (compFormat parseSize)),
    (cl!"-stripe-count", unary (cl!"-stripe-count") Test.stripeCount cmpU32),
    (cl!"-true", value Test.true_ (lit (cl!"-true"))),
    (cl!"-type", unary (cl!"-type") Test.type (parseFileTypes pf)),
    (cl!"-uid", unary (cl!"-uid") Test.userId cmpU32),
    (cl!"-user", unary (cl!"-user") Test.user parseString),
    (cl!"-xattr-match", binary (cl!"-xattr-match") (fun (fv : Text × Text) => Test.xattrMatch fv.1 fv.2)
        (context (expected (cl!"attribute")) parseString)
        (context (expected (cl!"value")) parseString)
        (cl!"attribute_and_value")),
    (cl!"-xattr", unary (cl!"-xattr") Test.xattr parseString),
    (cl!"-writable", value Test.writable (lit (cl!"-writable"))) ]

/-- `Test::parse`. -/
def parseTest (pf : Profile) : P Char Test :=
  context (label (cl!"test")) (alt ((testAlts pf).map Prod.snd))

/-- `token`. -/
def token (pf : Profile) : P Char Token :=
  context (label (cl!"syntax"))
    (alt [ value Token.lparen (lit (cl!"(")),
           value Token.rparen (lit (cl!")")),
           value Token.not (lit (cl!"!")),
           value Token.comma (lit (cl!",")),
           value Token.or (terminated (alt [lit (cl!"-or"), lit (cl!"-o")])
                                      (alt [value () multispace1, eof])),
           value Token.and (terminated (alt [lit (cl!"-and"), lit (cl!"-a")])
                                       (alt [value () multispace1, eof])),
           map Token.test (parseTest pf),
           map Token.action (parseAction pf),
           map Token.global parseGlobal,
           map Token.positional parsePositional,
           context (expected (cl!"invalid_token")) fail ])

/-- `lex`. -/
def lex (pf : Profile) : P Char (List Token) :=
  map Prod.fst (preceded multispace0 (repeatTill1 pf (terminated (token pf) multispace0) eof))

end FV
