import FindVerif.Model.Lex.Prelude
/- `src/find_parser/filetype.rs`. -/
namespace FV
open W

def fileTypeOf (c : Char) : Option FileType :=
  if c = 'b' then some .block else if c = 'c' then some .character
  else if c = 'd' then some .directory else if c = 'p' then some .pipe
  else if c = 'f' then some .file else if c = 'l' then some .link
  else if c = 's' then some .socket else none

def isFileTypeChar (c : Char) : Bool := containsChar (cl!"bcdpfls") c

def invalidType : P Char FileType :=
  cutErr (context (expected (cl!"invalid_type_specifier")) fail)

/-- `FileType::parse`. -/
def parseFileType : P Char FileType :=
  alt [ andThen (takeWhile 2 isAlpha) invalidType,
        mapOrPanic (cl!"filetype.rs:unreachable") fileTypeOf (oneOf isFileTypeChar),
        andThen alpha1 invalidType ]

/-- `Vec::<FileType>::parse`. -/
def parseFileTypes (pf : Profile) : P Char (List FileType) :=
  separated1 pf parseFileType (lit (cl!","))

end FV
