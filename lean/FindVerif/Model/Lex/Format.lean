import FindVerif.Model.Lex.Prelude
/- `src/find_parser/format.rs`. -/
namespace FV
open W

def octalEscape (ds : Text) : Option FormatSpecial :=
  if octVal ds < 65536 then some (.ascii (octVal ds)) else none

/-- `FormatSpecial::parse`. -/
def parseSpecial : P Char FormatSpecial :=
  alt [ preceded (lit (cl!"\\"))
          (alt [ mapOrPanic (cl!"format.rs:unwrap") octalEscape (takeWhileMN 3 3 isOct),
                 value .null (lit (cl!"0")),
                 value .backslash (lit (cl!"\\")),
                 value .alarm (lit (cl!"a")),
                 value .backspace (lit (cl!"b")),
                 value .clear (lit (cl!"c")),
                 value .form (lit (cl!"f")),
                 value .newline (lit (cl!"n")),
                 value .carriageReturn (lit (cl!"r")),
                 value .tabHorizontal (lit (cl!"t")),
                 value .tabVertical (lit (cl!"v")) ]),
        value .backslash (lit (cl!"\\")) ]

/-- The nullary directives of `FormatField::parse`, in source order (both inner `alt`s). -/
def fieldTable : List (Text × FormatField) :=
  [ (cl!"%", .percent), (cl!"a", .access), (cl!"b", .diskSizeBlocks), (cl!"c", .change),
    (cl!"d", .depth), (cl!"D", .deviceNumber), (cl!"f", .basename), (cl!"F", .fsType),
    (cl!"g", .group), (cl!"G", .groupId), (cl!"h", .parents), (cl!"H", .startingPoint),
    (cl!"i", .inodeDecimal), (cl!"k", .diskSizeKilos), (cl!"l", .symbolicTarget),
    (cl!"m", .permissionsOctal), (cl!"M", .permissionsSymbolic), (cl!"n", .hardlinks),
    (cl!"p", .name), (cl!"P", .nameWithoutStartingPoint), (cl!"s", .diskSizeBytes),
    (cl!"S", .sparseness), (cl!"t", .modify), (cl!"u", .user), (cl!"U", .userId),
    (cl!"y", .type), (cl!"Y", .typeSymlink), (cl!"Z", .securityContext),
    (cl!"{fid}", .fileId), (cl!"{projid}", .projectId), (cl!"{mirror-count}", .mirrorCount),
    (cl!"{stripe-count}", .stripeCount), (cl!"{stripe-size}", .stripeSize) ]

/-- `FormatField::parse`. -/
def parseField : P Char FormatField :=
  preceded (lit (cl!"%"))
    (alt ((fieldTable.map fun kv => value kv.2 (lit kv.1)) ++
      [ map FormatField.accessFormatted (preceded (lit (cl!"A")) any),
        map FormatField.changeFormatted (preceded (lit (cl!"C")) any),
        map FormatField.modifyFormatted (preceded (lit (cl!"T")) any),
        map FormatField.xattr (delimited (lit (cl!"{xattr:")) alpha1 (lit (cl!"}"))),
        cutErr (context (expected (cl!"invalid_format_specifier")) fail) ]))

def parseElement : P Char FormatElement :=
  alt [ map FormatElement.field parseField, map FormatElement.special parseSpecial ]

def litThen (x : Text × FormatElement) : List FormatElement :=
  if x.1.isEmpty then [x.2] else [.literal x.1, x.2]

/-- `Vec::<FormatElement>::parse`. -/
def parseFormat (pf : Profile) : P Char (List FormatElement) :=
  context (expected (cl!"format_string"))
    (map (fun (ls : List FormatElement × Text) =>
            if ls.2.isEmpty then ls.1 else ls.1 ++ [.literal ls.2])
      (pair
        (fun i => repeatFold pf (map litThen (repeatTill0 pf any parseElement))
                    (fun acc e => acc ++ e) (i.length + 1) [] i)
        (repeat0 pf any)))

end FV
