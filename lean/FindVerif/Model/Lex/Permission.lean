import FindVerif.Model.Lex.Prelude
/- `src/find_parser/permission.rs`. Modes are their bit values; all defined flags = 0o7777. -/
namespace FV
open W

/-- `Permission::value`; `none` is the `unreachable!()` arm. -/
def permValue (c : Char) : Option Nat :=
  if c = 'u' then some 0o700 else if c = 'g' then some 0o070
  else if c = 'o' then some 0o007 else if c = 'a' then some 0o777
  else if c = 'r' then some 0o444 else if c = 'w' then some 0o222
  else if c = 'x' then some 0o111 else none

/-- `Permission::from_symbolic_str(..)`: `chars().map(value).reduce(|)`; `none` when the
    string is empty (the caller's `unwrap()`), or a character has no value. -/
def symMode : Text → Option Nat
  | [] => none
  | c :: cs => cs.foldl (fun acc d => match acc, permValue d with
      | some a, some v => some (a ||| v)
      | _, _ => none) (permValue c)

inductive PartialPermission where
  | set (target level : Nat)
  | add (bits : Nat)
  | del (bits : Nat)
  deriving Repr, DecidableEq, Inhabited

/-- `!m` on `Mode` (bitflags: complement truncated to the defined flags). -/
def modeNot (m : Nat) : Nat := 0o7777 ^^^ (m &&& 0o7777)

def isWho (c : Char) : Bool := containsChar (cl!"ugoa") c
def isOp (c : Char) : Bool := containsChar (cl!"+=-") c
def isLevel (c : Char) : Bool := containsChar (cl!"rwx") c

def mkPartial (x : Text × Char × Text) : Option PartialPermission :=
  match symMode x.1, symMode x.2.2 with
  | some t, some l =>
    if x.2.1 = '=' then some (.set t l)
    else if x.2.1 = '+' then some (.add (t &&& l))
    else if x.2.1 = '-' then some (.del (t &&& modeNot l))
    else none
  | _, _ => none

/-- `PartialPermission::parse`. -/
def parsePartial : P Char PartialPermission :=
  mapOrPanic (cl!"permission.rs:unwrap") mkPartial
    (pair (takeWhile 1 isWho)
      (pair (cutErr (context (expected (cl!"symbolic_permission_symbol")) (oneOf isOp)))
            (cutErr (context (expected (cl!"symbolic_permission_level")) (takeWhile 1 isLevel)))))

/-- `PartialPermission::update`. -/
def PartialPermission.update (pp : PartialPermission) (mode : Nat) : Nat :=
  match pp with
  | .del bits => mode &&& modeNot bits
  | .add bits => mode ||| bits
  | .set target level => (mode &&& modeNot target) ||| (target &&& level)

/-- Octal reading with the range check of the fixed code: the value must be a valid
    `Mode` (`from_str_radix(..).ok().and_then(Mode::from_bits)`). -/
def octalMode (ds : Text) : Option Nat :=
  if octVal ds < 4096 then some (octVal ds) else none

/-- `Permission::parse`. -/
def parsePermission (pf : Profile) : P Char Nat :=
  context (label (cl!"permission"))
    (alt [ tryMap octalMode (takeWhile 3 isOct),
           map (fun v => v.foldl (fun acc (e : PartialPermission) => e.update acc) 0)
             (separated1 pf parsePartial (lit (cl!","))),
           context (expected (cl!"invalid_permission_format")) fail ])

/-- `PermCheck::parse`. -/
def parsePermCheck (pf : Profile) : P Char PermCheck :=
  context (label (cl!"permission_comparison"))
    (alt [ map PermCheck.any (preceded (lit (cl!"/")) (cutErr (parsePermission pf))),
           map PermCheck.atLeast (preceded (lit (cl!"-")) (cutErr (parsePermission pf))),
           map PermCheck.equal (cutErr (parsePermission pf)) ])

end FV
