//! AST <-> canonical S-expression.
#![allow(deprecated)]
use crate::sx::{unhex, Sx};
use lipe_find_parser::ast::*;
use lipe_find_parser::{Mode, RunOptions, Target};
use std::rc::Rc;

fn cmp<T>(c: &Comparison<T>, f: impl Fn(&T) -> Sx) -> Sx {
    match c {
        Comparison::GreaterThan(v) => Sx::app("GT", vec![f(v)]),
        Comparison::LesserThan(v) => Sx::app("LT", vec![f(v)]),
        Comparison::Equal(v) => Sx::app("EQ", vec![f(v)]),
    }
}

fn time(t: &TimeSpec) -> Sx {
    match t {
        TimeSpec::Second(n) => Sx::app("Second", vec![Sx::num(n)]),
        TimeSpec::Minute(n) => Sx::app("Minute", vec![Sx::num(n)]),
        TimeSpec::Hour(n) => Sx::app("Hour", vec![Sx::num(n)]),
        TimeSpec::Day(n) => Sx::app("Day", vec![Sx::num(n)]),
    }
}

fn size(s: &Size) -> Sx {
    match s {
        Size::Byte(n) => Sx::app("Byte", vec![Sx::num(n)]),
        Size::Word(n) => Sx::app("Word", vec![Sx::num(n)]),
        Size::Block(n) => Sx::app("Block", vec![Sx::num(n)]),
        Size::KiloByte(n) => Sx::app("KiloByte", vec![Sx::num(n)]),
        Size::MegaByte(n) => Sx::app("MegaByte", vec![Sx::num(n)]),
        Size::GigaByte(n) => Sx::app("GigaByte", vec![Sx::num(n)]),
        Size::TeraByte(n) => Sx::app("TeraByte", vec![Sx::num(n)]),
    }
}

fn filetype(t: &FileType) -> Sx {
    Sx::atom(match t {
        FileType::Block => "Block",
        FileType::Character => "Character",
        FileType::Directory => "Directory",
        FileType::Pipe => "Pipe",
        FileType::File => "File",
        FileType::Link => "Link",
        FileType::Socket => "Socket",
    })
}

fn special(s: &FormatSpecial) -> Sx {
    match s {
        FormatSpecial::Alarm => Sx::atom("Alarm"),
        FormatSpecial::Backspace => Sx::atom("Backspace"),
        FormatSpecial::Clear => Sx::atom("Clear"),
        FormatSpecial::Form => Sx::atom("Form"),
        FormatSpecial::Newline => Sx::atom("Newline"),
        FormatSpecial::CarriageReturn => Sx::atom("CarriageReturn"),
        FormatSpecial::TabHorizontal => Sx::atom("TabHorizontal"),
        FormatSpecial::TabVertical => Sx::atom("TabVertical"),
        FormatSpecial::Null => Sx::atom("Null"),
        FormatSpecial::Backslash => Sx::atom("Backslash"),
        FormatSpecial::Ascii(n) => Sx::app("Ascii", vec![Sx::num(n)]),
    }
}

fn field(f: &FormatField) -> Sx {
    use FormatField::*;
    match f {
        AccessFormatted(c) => Sx::app("AccessFormatted", vec![Sx::chr(*c)]),
        ChangeFormatted(c) => Sx::app("ChangeFormatted", vec![Sx::chr(*c)]),
        ModifyFormatted(c) => Sx::app("ModifyFormatted", vec![Sx::chr(*c)]),
        XAttr(s) => Sx::app("XAttr", vec![Sx::str(s)]),
        other => Sx::atom(format!("{:?}", other)),
    }
}

fn element(e: &FormatElement) -> Sx {
    match e {
        FormatElement::Literal(s) => Sx::app("Lit", vec![Sx::str(s)]),
        FormatElement::Field(f) => Sx::app("Fld", vec![field(f)]),
        FormatElement::Special(s) => Sx::app("Spc", vec![special(s)]),
    }
}

fn format(v: &Vec<FormatElement>) -> Sx {
    Sx::vec(v.iter().map(element).collect())
}

fn perm(p: &PermCheck) -> Sx {
    match p {
        PermCheck::AtLeast(Permission(m)) => Sx::app("AtLeast", vec![Sx::num(m.bits())]),
        PermCheck::Any(Permission(m)) => Sx::app("Any", vec![Sx::num(m.bits())]),
        PermCheck::Equal(Permission(m)) => Sx::app("Equal", vec![Sx::num(m.bits())]),
    }
}

pub fn test(t: &Test) -> Sx {
    use Test::*;
    let s1 = |n: &str, s: &String| Sx::app(n, vec![Sx::str(s)]);
    let c32 = |n: &str, c: &Comparison<u32>| Sx::app(n, vec![cmp(c, |v| Sx::num(v))]);
    match t {
        AccessTime(c) => Sx::app("AccessTime", vec![cmp(c, time)]),
        ChangeTime(c) => Sx::app("ChangeTime", vec![cmp(c, time)]),
        ModifyTime(c) => Sx::app("ModifyTime", vec![cmp(c, time)]),
        Empty => Sx::atom("Empty"),
        Executable => Sx::atom("Executable"),
        False => Sx::atom("False"),
        GroupId(c) => c32("GroupId", c),
        InodeNumber(c) => c32("InodeNumber", c),
        InsensitiveName(s) => s1("InsensitiveName", s),
        InsensitivePath(s) => s1("InsensitivePath", s),
        Links(c) => Sx::app("Links", vec![cmp(c, |v| Sx::num(v))]),
        MirrorCount(c) => c32("MirrorCount", c),
        Name(s) => s1("Name", s),
        Path(s) => s1("Path", s),
        Perm(p) => Sx::app("Perm", vec![perm(p)]),
        Pool(s) => s1("Pool", s),
        Readable => Sx::atom("Readable"),
        Size(c) => Sx::app("Size", vec![cmp(c, size)]),
        StripeCount(c) => c32("StripeCount", c),
        True => Sx::atom("True"),
        Type(l) => Sx::app("Type", vec![Sx::vec(l.iter().map(filetype).collect())]),
        UserId(c) => c32("UserId", c),
        Writable => Sx::atom("Writable"),
        Xattr(s) => s1("Xattr", s),
        XattrMatch(f, v) => Sx::app("XattrMatch", vec![Sx::str(f), Sx::str(v)]),
        AccessNewer(s) => s1("AccessNewer", s),
        ChangeNewer(s) => s1("ChangeNewer", s),
        FsType(s) => s1("FsType", s),
        Group(s) => s1("Group", s),
        InsensitiveLinkName(s) => s1("InsensitiveLinkName", s),
        InsensitiveRegex(s) => s1("InsensitiveRegex", s),
        LinkName(s) => s1("LinkName", s),
        ModifyNewer(s) => s1("ModifyNewer", s),
        NoGroup => Sx::atom("NoGroup"),
        NoUser => Sx::atom("NoUser"),
        Regex(s) => s1("Regex", s),
        Samefile(s) => s1("Samefile", s),
        User(s) => s1("User", s),
    }
}

pub fn action(a: &Action) -> Sx {
    use Action::*;
    match a {
        FileList(s) => Sx::app("FileList", vec![Sx::str(s)]),
        FilePrint(s) => Sx::app("FilePrint", vec![Sx::str(s)]),
        FilePrintNull(s) => Sx::app("FilePrintNull", vec![Sx::str(s)]),
        FilePrintFormatted(s, f) => Sx::app("FilePrintFormatted", vec![Sx::str(s), format(f)]),
        List => Sx::atom("List"),
        Print => Sx::atom("Print"),
        PrintNull => Sx::atom("PrintNull"),
        PrintFormatted(f) => Sx::app("PrintFormatted", vec![format(f)]),
        PrintFid => Sx::atom("PrintFid"),
        Prune => Sx::atom("Prune"),
        Quit => Sx::atom("Quit"),
        DefaultPrint => Sx::atom("DefaultPrint"),
    }
}

pub fn global(g: &GlobalOption) -> Sx {
    match g {
        GlobalOption::Depth => Sx::atom("Depth"),
        GlobalOption::MaxDepth(n) => Sx::app("MaxDepth", vec![Sx::num(n)]),
        GlobalOption::MinDepth(n) => Sx::app("MinDepth", vec![Sx::num(n)]),
        GlobalOption::Threads(n) => Sx::app("Threads", vec![Sx::num(n)]),
    }
}

pub fn expr(e: &Expression) -> Sx {
    match e {
        Expression::Test(t) => Sx::app("T", vec![test(t)]),
        Expression::Action(a) => Sx::app("A", vec![action(a)]),
        Expression::Global(g) => Sx::app("G", vec![global(g)]),
        Expression::Positional(PositionalOption::XDev) => Sx::app("Pos", vec![Sx::atom("XDev")]),
        Expression::Operator(o) => match o.as_ref() {
            Operator::Precedence(e) => Sx::app("Prec", vec![expr(e)]),
            Operator::Not(e) => Sx::app("Not", vec![expr(e)]),
            Operator::And(a, b) => Sx::app("And", vec![expr(a), expr(b)]),
            Operator::Or(a, b) => Sx::app("Or", vec![expr(a), expr(b)]),
            Operator::List(a, b) => Sx::app("List", vec![expr(a), expr(b)]),
        },
    }
}

pub fn options(o: &RunOptions) -> String {
    format!(
        "{} {}",
        if o.depth { 1 } else { 0 },
        match o.threads {
            Some(n) => n.to_string(),
            None => "-".to_string(),
        }
    )
}

pub fn target(t: &Target) -> Sx {
    let term = |t: &Option<char>| match t {
        Some(c) => Sx::chr(*c),
        None => Sx::atom("-"),
    };
    match t {
        Target::Stdout(t) => Sx::app("Stdout", vec![term(t)]),
        Target::File(n, t) => Sx::app("File", vec![Sx::str(n), term(t)]),
    }
}

// ---------------------------------------------------------------- decoding

fn head<'a>(s: &'a Sx) -> Option<(&'a str, &'a [Sx])> {
    match s {
        Sx::Atom(a) => Some((a.as_str(), &[])),
        Sx::List(v) => match v.first()? {
            Sx::Atom(a) => Some((a.as_str(), &v[1..])),
            _ => None,
        },
    }
}

fn dstr(s: &Sx) -> Option<String> {
    match s {
        Sx::Atom(a) => unhex(a),
        _ => None,
    }
}

fn dnum<T: std::str::FromStr>(s: &Sx) -> Option<T> {
    match s {
        Sx::Atom(a) => a.parse::<T>().ok(),
        _ => None,
    }
}

fn dchr(s: &Sx) -> Option<char> {
    match s {
        Sx::Atom(a) => char::from_u32(a.strip_prefix('c')?.parse::<u32>().ok()?),
        _ => None,
    }
}

fn dvec<T>(s: &Sx, f: impl Fn(&Sx) -> Option<T>) -> Option<Vec<T>> {
    let (h, args) = head(s)?;
    if h != "#" {
        return None;
    }
    args.iter().map(f).collect()
}

fn dcmp<T>(s: &Sx, f: impl Fn(&Sx) -> Option<T>) -> Option<Comparison<T>> {
    let (h, a) = head(s)?;
    let v = f(a.get(0)?)?;
    Some(match h {
        "GT" => Comparison::GreaterThan(v),
        "LT" => Comparison::LesserThan(v),
        "EQ" => Comparison::Equal(v),
        _ => return None,
    })
}

fn dtime(s: &Sx) -> Option<TimeSpec> {
    let (h, a) = head(s)?;
    let n = dnum::<u64>(a.get(0)?)?;
    Some(match h {
        "Second" => TimeSpec::Second(n),
        "Minute" => TimeSpec::Minute(n),
        "Hour" => TimeSpec::Hour(n),
        "Day" => TimeSpec::Day(n),
        _ => return None,
    })
}

fn dsize(s: &Sx) -> Option<Size> {
    let (h, a) = head(s)?;
    let n = dnum::<u64>(a.get(0)?)?;
    Some(match h {
        "Byte" => Size::Byte(n),
        "Word" => Size::Word(n),
        "Block" => Size::Block(n),
        "KiloByte" => Size::KiloByte(n),
        "MegaByte" => Size::MegaByte(n),
        "GigaByte" => Size::GigaByte(n),
        "TeraByte" => Size::TeraByte(n),
        _ => return None,
    })
}

fn dfiletype(s: &Sx) -> Option<FileType> {
    let (h, _) = head(s)?;
    Some(match h {
        "Block" => FileType::Block,
        "Character" => FileType::Character,
        "Directory" => FileType::Directory,
        "Pipe" => FileType::Pipe,
        "File" => FileType::File,
        "Link" => FileType::Link,
        "Socket" => FileType::Socket,
        _ => return None,
    })
}

fn dspecial(s: &Sx) -> Option<FormatSpecial> {
    let (h, a) = head(s)?;
    Some(match h {
        "Alarm" => FormatSpecial::Alarm,
        "Backspace" => FormatSpecial::Backspace,
        "Clear" => FormatSpecial::Clear,
        "Form" => FormatSpecial::Form,
        "Newline" => FormatSpecial::Newline,
        "CarriageReturn" => FormatSpecial::CarriageReturn,
        "TabHorizontal" => FormatSpecial::TabHorizontal,
        "TabVertical" => FormatSpecial::TabVertical,
        "Null" => FormatSpecial::Null,
        "Backslash" => FormatSpecial::Backslash,
        "Ascii" => FormatSpecial::Ascii(dnum::<u16>(a.get(0)?)?),
        _ => return None,
    })
}

fn dfield(s: &Sx) -> Option<FormatField> {
    use FormatField::*;
    let (h, a) = head(s)?;
    Some(match h {
        "Percent" => Percent,
        "Access" => Access,
        "AccessFormatted" => AccessFormatted(dchr(a.get(0)?)?),
        "DiskSizeBlocks" => DiskSizeBlocks,
        "Change" => Change,
        "ChangeFormatted" => ChangeFormatted(dchr(a.get(0)?)?),
        "Depth" => Depth,
        "DeviceNumber" => DeviceNumber,
        "Basename" => Basename,
        "FsType" => FsType,
        "Group" => Group,
        "GroupId" => GroupId,
        "Parents" => Parents,
        "StartingPoint" => StartingPoint,
        "InodeDecimal" => InodeDecimal,
        "DiskSizeKilos" => DiskSizeKilos,
        "SymbolicTarget" => SymbolicTarget,
        "PermissionsOctal" => PermissionsOctal,
        "PermissionsSymbolic" => PermissionsSymbolic,
        "Hardlinks" => Hardlinks,
        "Name" => Name,
        "NameWithoutStartingPoint" => NameWithoutStartingPoint,
        "DiskSizeBytes" => DiskSizeBytes,
        "Sparseness" => Sparseness,
        "Modify" => Modify,
        "ModifyFormatted" => ModifyFormatted(dchr(a.get(0)?)?),
        "User" => User,
        "UserId" => UserId,
        "Type" => Type,
        "TypeSymlink" => TypeSymlink,
        "SecurityContext" => SecurityContext,
        "FileId" => FileId,
        "ProjectId" => ProjectId,
        "MirrorCount" => MirrorCount,
        "StripeCount" => StripeCount,
        "StripeSize" => StripeSize,
        "XAttr" => XAttr(dstr(a.get(0)?)?),
        _ => return None,
    })
}

fn delement(s: &Sx) -> Option<FormatElement> {
    let (h, a) = head(s)?;
    Some(match h {
        "Lit" => FormatElement::Literal(dstr(a.get(0)?)?),
        "Fld" => FormatElement::Field(dfield(a.get(0)?)?),
        "Spc" => FormatElement::Special(dspecial(a.get(0)?)?),
        _ => return None,
    })
}

fn dformat(s: &Sx) -> Option<Vec<FormatElement>> {
    dvec(s, delement)
}

fn dperm(s: &Sx) -> Option<PermCheck> {
    let (h, a) = head(s)?;
    let m = Permission(Mode::from_bits(dnum::<u32>(a.get(0)?)?)?);
    Some(match h {
        "AtLeast" => PermCheck::AtLeast(m),
        "Any" => PermCheck::Any(m),
        "Equal" => PermCheck::Equal(m),
        _ => return None,
    })
}

fn dtest(s: &Sx) -> Option<Test> {
    use Test::*;
    let (h, a) = head(s)?;
    let s0 = || dstr(a.get(0)?);
    let c32 = || dcmp(a.get(0)?, |x| dnum::<u32>(x));
    Some(match h {
        "AccessTime" => AccessTime(dcmp(a.get(0)?, dtime)?),
        "ChangeTime" => ChangeTime(dcmp(a.get(0)?, dtime)?),
        "ModifyTime" => ModifyTime(dcmp(a.get(0)?, dtime)?),
        "Empty" => Empty,
        "Executable" => Executable,
        "False" => False,
        "GroupId" => GroupId(c32()?),
        "InodeNumber" => InodeNumber(c32()?),
        "InsensitiveName" => InsensitiveName(s0()?),
        "InsensitivePath" => InsensitivePath(s0()?),
        "Links" => Links(dcmp(a.get(0)?, |x| dnum::<u64>(x))?),
        "MirrorCount" => MirrorCount(c32()?),
        "Name" => Name(s0()?),
        "Path" => Path(s0()?),
        "Perm" => Perm(dperm(a.get(0)?)?),
        "Pool" => Pool(s0()?),
        "Readable" => Readable,
        "Size" => Size(dcmp(a.get(0)?, dsize)?),
        "StripeCount" => StripeCount(c32()?),
        "True" => True,
        "Type" => Type(dvec(a.get(0)?, dfiletype)?),
        "UserId" => UserId(c32()?),
        "Writable" => Writable,
        "Xattr" => Xattr(s0()?),
        "XattrMatch" => XattrMatch(s0()?, dstr(a.get(1)?)?),
        "AccessNewer" => AccessNewer(s0()?),
        "ChangeNewer" => ChangeNewer(s0()?),
        "FsType" => FsType(s0()?),
        "Group" => Group(s0()?),
        "InsensitiveLinkName" => InsensitiveLinkName(s0()?),
        "InsensitiveRegex" => InsensitiveRegex(s0()?),
        "LinkName" => LinkName(s0()?),
        "ModifyNewer" => ModifyNewer(s0()?),
        "NoGroup" => NoGroup,
        "NoUser" => NoUser,
        "Regex" => Regex(s0()?),
        "Samefile" => Samefile(s0()?),
        "User" => User(s0()?),
        _ => return None,
    })
}

fn daction(s: &Sx) -> Option<Action> {
    use Action::*;
    let (h, a) = head(s)?;
    Some(match h {
        "FileList" => FileList(dstr(a.get(0)?)?),
        "FilePrint" => FilePrint(dstr(a.get(0)?)?),
        "FilePrintNull" => FilePrintNull(dstr(a.get(0)?)?),
        "FilePrintFormatted" => FilePrintFormatted(dstr(a.get(0)?)?, dformat(a.get(1)?)?),
        "List" => List,
        "Print" => Print,
        "PrintNull" => PrintNull,
        "PrintFormatted" => PrintFormatted(dformat(a.get(0)?)?),
        "PrintFid" => PrintFid,
        "Prune" => Prune,
        "Quit" => Quit,
        "DefaultPrint" => DefaultPrint,
        _ => return None,
    })
}

fn dglobal(s: &Sx) -> Option<GlobalOption> {
    let (h, a) = head(s)?;
    Some(match h {
        "Depth" => GlobalOption::Depth,
        "MaxDepth" => GlobalOption::MaxDepth(dnum::<u32>(a.get(0)?)?),
        "MinDepth" => GlobalOption::MinDepth(dnum::<u32>(a.get(0)?)?),
        "Threads" => GlobalOption::Threads(dnum::<u32>(a.get(0)?)?),
        _ => return None,
    })
}

pub fn dexpr(s: &Sx) -> Option<Expression> {
    let (h, a) = head(s)?;
    let op = |o: Operator| Expression::Operator(Rc::new(o));
    Some(match h {
        "T" => Expression::Test(dtest(a.get(0)?)?),
        "A" => Expression::Action(daction(a.get(0)?)?),
        "G" => Expression::Global(dglobal(a.get(0)?)?),
        "Pos" => Expression::Positional(PositionalOption::XDev),
        "Prec" => op(Operator::Precedence(dexpr(a.get(0)?)?)),
        "Not" => op(Operator::Not(dexpr(a.get(0)?)?)),
        "And" => op(Operator::And(dexpr(a.get(0)?)?, dexpr(a.get(1)?)?)),
        "Or" => op(Operator::Or(dexpr(a.get(0)?)?, dexpr(a.get(1)?)?)),
        "List" => op(Operator::List(dexpr(a.get(0)?)?, dexpr(a.get(1)?)?)),
        _ => return None,
    })
}
