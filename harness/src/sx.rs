//! Canonical S-expression text shared with the Lean driver.
//! atom ::= bare word (constructor, decimal number, `x<hex>` string, `c<codepoint>` char)
//! list ::= '(' item* ')'      a vector is `(# item*)`, a constructor application `(Name arg*)`
#[derive(Debug, Clone, PartialEq)]
pub enum Sx {
    Atom(String),
    List(Vec<Sx>),
}

pub fn hex(s: &str) -> String {
    let mut out = String::from("x");
    for b in s.as_bytes() {
        out.push_str(&format!("{:02x}", b));
    }
    out
}

pub fn unhex(s: &str) -> Option<String> {
    let s = s.strip_prefix('x')?;
    if s.len() % 2 != 0 {
        return None;
    }
    let mut bytes = Vec::new();
    let b = s.as_bytes();
    for i in (0..b.len()).step_by(2) {
        bytes.push(u8::from_str_radix(std::str::from_utf8(&b[i..i + 2]).ok()?, 16).ok()?);
    }
    String::from_utf8(bytes).ok()
}

impl Sx {
    pub fn atom<S: Into<String>>(s: S) -> Sx {
        Sx::Atom(s.into())
    }
    pub fn app(name: &str, args: Vec<Sx>) -> Sx {
        let mut v = vec![Sx::atom(name)];
        v.extend(args);
        Sx::List(v)
    }
    pub fn vec(items: Vec<Sx>) -> Sx {
        let mut v = vec![Sx::atom("#")];
        v.extend(items);
        Sx::List(v)
    }
    pub fn str(s: &str) -> Sx {
        Sx::Atom(hex(s))
    }
    pub fn num<T: std::fmt::Display>(n: T) -> Sx {
        Sx::Atom(format!("{}", n))
    }
    pub fn chr(c: char) -> Sx {
        Sx::Atom(format!("c{}", c as u32))
    }

    pub fn print(&self, out: &mut String) {
        match self {
            Sx::Atom(a) => out.push_str(a),
            Sx::List(items) => {
                out.push('(');
                for (i, it) in items.iter().enumerate() {
                    if i > 0 {
                        out.push(' ');
                    }
                    it.print(out);
                }
                out.push(')');
            }
        }
    }

    pub fn to_text(&self) -> String {
        let mut s = String::new();
        self.print(&mut s);
        s
    }

    pub fn parse(text: &str) -> Option<Sx> {
        let toks = tokenize(text);
        let mut pos = 0;
        let r = parse_at(&toks, &mut pos)?;
        if pos == toks.len() {
            Some(r)
        } else {
            None
        }
    }
}

fn tokenize(text: &str) -> Vec<String> {
    let mut toks = Vec::new();
    let mut cur = String::new();
    for c in text.chars() {
        match c {
            '(' | ')' => {
                if !cur.is_empty() {
                    toks.push(std::mem::take(&mut cur));
                }
                toks.push(c.to_string());
            }
            ' ' => {
                if !cur.is_empty() {
                    toks.push(std::mem::take(&mut cur));
                }
            }
            c => cur.push(c),
        }
    }
    if !cur.is_empty() {
        toks.push(cur);
    }
    toks
}

fn parse_at(toks: &[String], pos: &mut usize) -> Option<Sx> {
    let t = toks.get(*pos)?;
    *pos += 1;
    if t == "(" {
        let mut items = Vec::new();
        loop {
            let n = toks.get(*pos)?;
            if n == ")" {
                *pos += 1;
                return Some(Sx::List(items));
            }
            items.push(parse_at(toks, pos)?);
        }
    } else if t == ")" {
        None
    } else {
        Some(Sx::Atom(t.clone()))
    }
}
