//! Correspondence harness: runs the real `lipe-find-parser` in-process on one request
//! per line and prints `request TAB observation`.
mod conv;
mod sx;

use lipe_find_parser::ast::*;
use lipe_find_parser::{compile, parse, RunOptions, Target};
use std::collections::HashMap;
use std::io::{BufRead, Write};
use std::panic::{catch_unwind, AssertUnwindSafe};
use std::sync::Mutex;
use sx::{hex, unhex, Sx};

static LAST_PANIC: Mutex<String> = Mutex::new(String::new());

fn profile() -> &'static str {
    if cfg!(debug_assertions) {
        "debug"
    } else {
        "release"
    }
}

/// Extract `Variant` and the string fields from a derived `Debug` rendering such as
/// `SyntaxError(InvalidTestArgument("-amin", "x", "why"))` or `UnsupportedTest("NoUser")`.
fn debug_fields(dbg: &str) -> (String, Vec<String>) {
    let inner = dbg
        .strip_prefix("SyntaxError(")
        .or_else(|| dbg.strip_prefix("GrammarError("))
        .map(|s| &s[..s.len() - 1])
        .unwrap_or(dbg);
    let (name, rest) = match inner.find('(') {
        Some(p) => (&inner[..p], &inner[p + 1..inner.len() - 1]),
        None => (inner, ""),
    };
    let mut fields = Vec::new();
    let cs: Vec<char> = rest.chars().collect();
    let mut i = 0;
    while i < cs.len() {
        if cs[i] == '"' {
            i += 1;
            let mut cur = String::new();
            while i < cs.len() && cs[i] != '"' {
                if cs[i] == '\\' {
                    i += 1;
                    match cs[i] {
                        'n' => cur.push('\n'),
                        'r' => cur.push('\r'),
                        't' => cur.push('\t'),
                        '0' => cur.push('\0'),
                        '\\' => cur.push('\\'),
                        '"' => cur.push('"'),
                        '\'' => cur.push('\''),
                        'u' => {
                            // \u{hex}
                            let mut j = i + 2;
                            let mut v = 0u32;
                            while cs[j] != '}' {
                                v = v * 16 + cs[j].to_digit(16).unwrap();
                                j += 1;
                            }
                            cur.push(char::from_u32(v).unwrap());
                            i = j;
                        }
                        c => cur.push(c),
                    }
                } else {
                    cur.push(cs[i]);
                }
                i += 1;
            }
            fields.push(cur);
        }
        i += 1;
    }
    (name.to_string(), fields)
}

fn iomap_text(m: &Option<HashMap<u32, Target>>) -> String {
    match m {
        None => "none".to_string(),
        Some(m) => {
            let mut keys: Vec<&u32> = m.keys().collect();
            keys.sort();
            Sx::vec(
                keys.iter()
                    .map(|k| Sx::List(vec![Sx::num(k), conv::target(&m[k])]))
                    .collect(),
            )
            .to_text()
            .replace(' ', ",")
        }
    }
}

fn guarded<T>(stage: &str, f: impl FnOnce() -> T) -> Result<T, String> {
    match catch_unwind(AssertUnwindSafe(f)) {
        Ok(v) => Ok(v),
        Err(_) => {
            let msg = LAST_PANIC.lock().unwrap().clone();
            Err(format!("PANIC {} {}", stage, hex(&msg)))
        }
    }
}

fn now() -> u64 {
    std::time::SystemTime::now()
        .duration_since(std::time::UNIX_EPOCH)
        .unwrap()
        .as_secs()
}

fn err_obs(tag: &str, dbg: &str, text: &str) -> String {
    let (name, fields) = debug_fields(dbg);
    let f = |i: usize| fields.get(i).map(|s| hex(s)).unwrap_or("-".to_string());
    format!("{} {} {} {} {} {}", tag, name, f(0), f(1), f(2), hex(text))
}

fn do_parse(input: &str) -> Result<Result<(RunOptions, Expression), String>, String> {
    let r = guarded("parse", || parse(input))?;
    match r {
        Ok(v) => Ok(Ok(v)),
        Err(e) => {
            let dbg = format!("{:?}", e);
            let text = guarded("display", || format!("{}", e))?;
            Ok(Err(err_obs("ERR", &dbg, &text)))
        }
    }
}

/// What a compile result looks like from outside (for comparing two calls on the same value); a macro
/// because the result types are not nameable outside the crate.
macro_rules! compile_digest {
    ($c:expr, $p:expr) => {
        match $c {
            Err(e) => format!("Err {:?}", e),
            Ok(c) => format!("Ok {} {}", c.scheme($p), iomap_text(&c.io_map())),
        }
    };
}

fn do_compile(opts: &RunOptions, tree: &Expression, paths: &[String]) -> Result<String, String> {
    let t0 = now();
    let c = guarded("compile", || compile(tree, opts))?;
    let t1 = now();
    // API history: the same value compiled again on the same thread, this time while a clone of the tree
    // is alive (shared Rc nodes).  compile is a function of the value: both calls must agree.  Skipped when
    // the wall clock moved (time tests embed the current second).
    {
        let alias = tree.clone();
        let again = guarded("compile", || compile(tree, opts));
        let t2 = now();
        drop(alias);
        if t0 == t2 {
            let p0 = paths.first().map(|s| s.as_str()).unwrap_or("/");
            let same = match &again {
                Err(_) => false,
                Ok(c2) => guarded("scheme", || compile_digest!(&c, p0) == compile_digest!(c2, p0)).unwrap_or(false),
            };
            if !same {
                let d2 = match &again {
                    Err(p) => p.clone(),
                    Ok(c2) => guarded("scheme", || compile_digest!(c2, p0)).unwrap_or_else(|p| p),
                };
                let d1 = guarded("scheme", || compile_digest!(&c, p0)).unwrap_or_else(|p| p);
                return Ok(format!("INCONSISTENT {}", hex(&format!("compile of the same value twice on one thread (second call with a clone of the tree alive): first [{}] second [{}]", d1, d2))));
            }
        }
    }
    match c {
        Err(e) => {
            let dbg = format!("{:?}", e);
            let text = guarded("display", || format!("{}", e))?;
            Ok(err_obs("CERR", &dbg, &text))
        }
        Ok(c) => {
            let mut out = format!("COK {} {}", t0, t1);
            let m0 = guarded("io_map", || c.io_map())?;
            out.push_str(&format!(" {}", iomap_text(&m0)));
            for p in paths {
                let prog = guarded("scheme", || c.scheme(p))?;
                let m = guarded("io_map", || c.io_map())?;
                out.push_str(&format!(" {} {}", hex(&prog), iomap_text(&m)));
            }
            Ok(out)
        }
    }
}

fn handle(line: &str) -> String {
    // fields starting with '#' are annotations for the driver
    let parts: Vec<&str> = line.split(' ').filter(|p| !p.starts_with('#')).collect();
    let bad = || "BADREQ".to_string();
    match parts[0] {
        "P" => {
            let Some(input) = parts.get(1).and_then(|h| unhex(h)) else { return bad() };
            match do_parse(&input) {
                Err(p) => p,
                Ok(Err(e)) => e,
                Ok(Ok((o, t))) => format!("OK {} {}", conv::options(&o), conv::expr(&t).to_text()),
            }
        }
        "C" => {
            let Some(input) = parts.get(1).and_then(|h| unhex(h)) else { return bad() };
            let paths: Option<Vec<String>> = parts[2..].iter().map(|h| unhex(h)).collect();
            let Some(paths) = paths else { return bad() };
            match do_parse(&input) {
                Err(p) => p,
                Ok(Err(e)) => e,
                Ok(Ok((o, t))) => {
                    let head = format!("OK {} {}", conv::options(&o), conv::expr(&t).to_text());
                    match do_compile(&o, &t, &paths) {
                        Ok(s) => format!("{} | {}", head, s),
                        Err(p) => format!("{} | {}", head, p),
                    }
                }
            }
        }
        "T" => {
            // T <depth> <threads|-> <hexpath> <tree...>
            if parts.len() < 5 {
                return bad();
            }
            let depth = parts[1] == "1";
            let threads = if parts[2] == "-" { None } else { parts[2].parse::<u32>().ok() };
            let Some(path) = unhex(parts[3]) else { return bad() };
            let text = parts[4..].join(" ");
            let Some(tree) = Sx::parse(&text).and_then(|s| conv::dexpr(&s)) else { return bad() };
            let opts = RunOptions { depth, threads };
            let q = match guarded("query", || (tree.action(), tree.complex_frames())) {
                Ok((a, c)) => format!("Q {} {}", a as u8, c as u8),
                Err(p) => p,
            };
            let r = match do_compile(&opts, &tree, &[path]) {
                Ok(s) => format!("{} | {}", q, s),
                Err(p) => format!("{} | {}", q, p),
            };
            // API history: the helpers asked again after the compile, and on a structurally equal tree built
            // afresh after the first one was dropped: same value, same answers.
            let q2 = match guarded("query", || (tree.action(), tree.complex_frames())) {
                Ok((a, c)) => format!("Q {} {}", a as u8, c as u8),
                Err(p) => p,
            };
            drop(tree);
            let q3 = match Sx::parse(&text).and_then(|s| conv::dexpr(&s)) {
                Some(t2) => match guarded("query", || (t2.action(), t2.complex_frames())) {
                    Ok((a, c)) => format!("Q {} {}", a as u8, c as u8),
                    Err(p) => p,
                },
                None => q.clone(),
            };
            if q2 != q || q3 != q {
                return format!("INCONSISTENT {}", hex(&format!("action()/complex_frames() of the same value: before compile [{}] after compile [{}] rebuilt [{}]", q, q2, q3)));
            }
            r
        }
        "Z" => {
            // Z <millis>: let the wall clock advance (histories whose outcome must not depend on it)
            let ms = parts.get(1).and_then(|s| s.parse::<u64>().ok()).unwrap_or(0).min(3000);
            std::thread::sleep(std::time::Duration::from_millis(ms));
            "ZZ".to_string()
        }
        "U" => {
            // U S <Variant> <n> | U T <Variant> <n> | U F <Variant>
            let n = parts.get(3).and_then(|s| s.parse::<u64>().ok()).unwrap_or(0);
            match (parts.get(1).copied(), parts.get(2).copied()) {
                (Some("S"), Some(v)) => {
                    let s = match v {
                        "Byte" => Size::Byte(n),
                        "Word" => Size::Word(n),
                        "Block" => Size::Block(n),
                        "KiloByte" => Size::KiloByte(n),
                        "MegaByte" => Size::MegaByte(n),
                        "GigaByte" => Size::GigaByte(n),
                        "TeraByte" => Size::TeraByte(n),
                        _ => return bad(),
                    };
                    let m = s.mult();
                    match guarded("byte_size", || s.byte_size()) {
                        Ok(b) => format!("US {} {}", m, b),
                        Err(_) => format!("US {} PANIC", m),
                    }
                }
                (Some("T"), Some(v)) => {
                    let t = match v {
                        "Second" => TimeSpec::Second(n),
                        "Minute" => TimeSpec::Minute(n),
                        "Hour" => TimeSpec::Hour(n),
                        "Day" => TimeSpec::Day(n),
                        _ => return bad(),
                    };
                    format!("UT {}", t.secs())
                }
                (Some("F"), Some(v)) => {
                    let t = match v {
                        "Block" => FileType::Block,
                        "Character" => FileType::Character,
                        "Directory" => FileType::Directory,
                        "Pipe" => FileType::Pipe,
                        "File" => FileType::File,
                        "Link" => FileType::Link,
                        "Socket" => FileType::Socket,
                        _ => return bad(),
                    };
                    format!("UF {}", t.octal().bits())
                }
                _ => bad(),
            }
        }
        _ => bad(),
    }
}

fn main() {
    std::panic::set_hook(Box::new(|info| {
        let msg = if let Some(s) = info.payload().downcast_ref::<&str>() {
            s.to_string()
        } else if let Some(s) = info.payload().downcast_ref::<String>() {
            s.clone()
        } else {
            "?".to_string()
        };
        let loc = info
            .location()
            .map(|l| format!("{}:{}", l.file(), l.line()))
            .unwrap_or_default();
        *LAST_PANIC.lock().unwrap() = format!("{} @ {}", msg, loc);
    }));
    let stdin = std::io::stdin();
    let stdout = std::io::stdout();
    let mut out = std::io::BufWriter::new(stdout.lock());
    let pf = profile();
    // `--threads N`: the requests are split into N contiguous runs answered CONCURRENTLY by N threads of this
    // one process (process-wide state shared, thread-local state not); answers are printed in request order.
    let args: Vec<String> = std::env::args().collect();
    let nthreads = args.iter().position(|a| a == "--threads").and_then(|i| args.get(i + 1)).and_then(|s| s.parse::<usize>().ok()).unwrap_or(1);
    if nthreads > 1 {
        let lines: Vec<String> = stdin.lock().lines().map(|l| l.unwrap().trim_end().to_string()).filter(|l| !l.is_empty()).collect();
        let chunk = (lines.len() + nthreads - 1) / nthreads.max(1);
        let mut handles = Vec::new();
        for part in lines.chunks(chunk.max(1)) {
            let part: Vec<String> = part.to_vec();
            handles.push(std::thread::Builder::new().stack_size(64 << 20).spawn(move || {
                part.iter().map(|l| format!("{}\t{} {}", l, pf, handle(l))).collect::<Vec<String>>()
            }).unwrap());
        }
        for h in handles {
            for l in h.join().unwrap() {
                writeln!(out, "{}", l).unwrap();
            }
        }
        out.flush().unwrap();
        return;
    }
    for line in stdin.lock().lines() {
        let line = line.unwrap();
        let line = line.trim_end();
        if line.is_empty() {
            continue;
        }
        let obs = handle(line);
        writeln!(out, "{}\t{} {}", line, pf, obs).unwrap();
    }
    out.flush().unwrap();
}
